//@file parent=src/half_connection/loss_rate.rs
// Loss interval history: accessors for the frame queue obligations and hostile-input safety of reset().
use super::*;

pub(crate) fn len_of(q: &LossIntervalQueue) -> usize { q.entries.len() }
pub(crate) fn front_len_of(q: &LossIntervalQueue) -> u32 { q.entries.front().map_or(0, |e| e.length) }

//@h props=C03,C14 tier=quick timeout=900 role=loss-intervals
//@fn LossIntervalQueue::{push_nack, push_ack, compute_loss_rate, reset}
//@bound history built by 1..=2 nacks (send times / RTT any) and 0..=1 acks; then compute_loss_rate and reset(p) with ANY p in (0, 1] (what eval_tcp_throughput_inv returns)
#[kani::proof]
#[kani::unwind(12)]
fn o3_6_loss_intervals() {
    let mut q = LossIntervalQueue::new();
    assert!(q.compute_loss_rate() == 0.0);
    let (t0, t1): (u64, u64) = (kani::any(), kani::any());
    let (r0, r1): (u64, u64) = (kani::any::<u64>() & 0xFFFF, kani::any::<u64>() & 0xFFFF);
    kani::assume(t0 < 1 << 40 && t1 < 1 << 40);
    q.push_nack(t0, r0);
    if kani::any() { q.push_ack(); }
    if kani::any() { q.push_nack(t1, r1); }
    let p = q.compute_loss_rate();
    assert!(p > 0.0 && p <= 1.0, "[C14] the loss event rate is a probability once loss has been seen");
    let ip: f64 = kani::any();
    kani::assume(ip > 0.0 && ip <= 1.0);
    q.reset(ip);
    assert!(q.entries.len() == 1 && q.entries[0].length >= 1, "[C03] reset keeps exactly one interval of at least one frame");
    std::mem::forget(q);
}

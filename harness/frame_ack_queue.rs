//@file parent=src/half_connection/frame_ack_queue.rs
// Receiver-side frame window (dedupe / no-processing-after-a-later-frame) and ack-group bookkeeping.
use super::*;

fn any_pow2_size() -> u32 {
    let k: u32 = kani::any();
    kani::assume(k <= 13);
    1u32 << k
}

fn window_step(has_entry: bool) -> (bool, usize) {
    let base: u32 = kani::any();
    let size = any_pow2_size();
    let mut q = FrameAckQueue::new(size, base);
    let e0 = frame::AckGroup { base_id: kani::any(), bitfield: kani::any(), nonce: kani::any() };
    if has_entry {
        // representation invariant of a queued group: its base bit is set (pop() debug-asserts it)
        kani::assume(e0.bitfield & 1 != 0);
        q.entries.push_back(e0.clone());
    }
    let n0 = has_entry as usize;
    let id: u32 = kani::any();
    let nonce: bool = kani::any();
    let accepted = q.window_contains(id);
    assert!(accepted == (id.wrapping_sub(base) < size));
    q.mark_seen(id, nonce);
    let nb = q.base_id();
    let n = q.entries.len();
    if !accepted {
        assert!(nb == base && n == n0, "[C01,C03] a frame outside the window changes nothing");
        if has_entry { assert!(*q.entries.front().unwrap() == e0); }
    } else {
        assert!(nb == id.wrapping_add(1), "[C01] window base moves past the accepted frame");
        assert!(nb.wrapping_sub(base) >= 1 && nb.wrapping_sub(base) <= size, "[C01,C03] base moves forward by at most the window size");
        // no frame at or before the accepted one (relative to the old base) is ever accepted again
        let other: u32 = kani::any();
        if other.wrapping_sub(base) <= id.wrapping_sub(base) {
            assert!(!q.window_contains(other), "[C01] a frame is processed at most once and never after a later one");
        }
        // the acknowledgement owed for this frame is recorded: merged into the last group or as a new group
        assert!(n >= 1 && n <= n0 + 1);
        let last = q.entries.back().unwrap();
        let bit = id.wrapping_sub(last.base_id);
        assert!(bit < 32 && last.bitfield & (1 << bit) != 0, "[C15] the accepted frame is covered by the last ack group");
        if n == n0 + 1 {
            assert!(last.base_id == id && last.bitfield == 1 && last.nonce == nonce, "[C15] a fresh group carries exactly this frame's nonce");
            if has_entry { assert!(*q.entries.front().unwrap() == e0); }
        } else {
            let was_set = e0.bitfield & (1 << bit) != 0;
            assert!(last.base_id == e0.base_id);
            assert!(last.nonce == (e0.nonce ^ (nonce && !was_set)), "[C15] group nonce is the XOR of the nonces of the frames it newly covers");
            assert!(last.bitfield == e0.bitfield | (1 << bit));
        }
    }
    kani::cover!(accepted && id < base, "accepted across the 2^32 wrap");
    std::mem::forget(q);
    (accepted, n)
}

//@h props=C01,C03,C15 tier=quick timeout=600 role=frame-window-step
//@fn ReceiveWindow::{contains, advance}, FrameAckQueue::{mark_seen, window_contains, base_id}
//@bound one step from ANY window state (base any u32, size any 2^k <= 8192), empty ack-group queue; frame id and nonce any
#[kani::proof]
#[kani::unwind(3)]
fn o1_2_frame_window_step_empty_queue() { let (a, n) = window_step(false); kani::cover!(a && n == 1, "first group opened"); }

//@h props=C01,C03,C15 tier=quick timeout=600 role=frame-window-step
//@fn ReceiveWindow::{contains, advance}, FrameAckQueue::{mark_seen, window_contains, base_id}
//@bound one step from ANY window state (base any u32, size any 2^k <= 8192) with one queued ack group (fields any, base bit set); frame id and nonce any
#[kani::proof]
#[kani::unwind(3)]
fn o1_2_frame_window_step_one_group() {
    let (a, n) = window_step(true);
    kani::cover!(a && n == 1, "merged into an existing group");
    kani::cover!(a && n == 2, "opened a new group");
}

//@h props=C11,C03,C01 tier=quick timeout=300 role=frame-window-resync
//@fn FrameAckQueue::resynchronize, ReceiveWindow::advance
//@bound one step from ANY window state (base any, size any 2^k <= 8192); sender_next_id any u32
#[kani::proof]
#[kani::unwind(3)]
fn o11_2_frame_window_resync() {
    let base: u32 = kani::any();
    let size = any_pow2_size();
    let mut q = FrameAckQueue::new(size, base);
    let next: u32 = kani::any();
    q.resynchronize(next);
    let d = next.wrapping_sub(base);
    if d >= 1 && d <= size {
        assert!(q.base_id() == next, "[C11] a sync frame naming an id within one window ahead moves the frame window there");
    } else {
        assert!(q.base_id() == base, "[C03,C01] any other id leaves the window alone (never backwards)");
    }
    kani::cover!(d == size, "a whole window of frames was lost");
    std::mem::forget(q);
}

//@h props=C06 tier=quick timeout=300 role=ack-queue-bound
//@fn FrameAckQueue::mark_seen
//@bound frame window of 64 ids (so at most 64/32+1 = 3 groups can refer to ids of one window); pre-state: 3 queued groups with any fields, base any; one accepted frame
#[kani::proof]
#[kani::unwind(5)]
fn o6_4_ack_group_queue_bounded() {
    let base: u32 = kani::any();
    let mut q = FrameAckQueue::new(64, base);
    let mut i = 0;
    while i < 3 {
        let e = frame::AckGroup { base_id: kani::any(), bitfield: kani::any(), nonce: kani::any() };
        kani::assume(e.bitfield & 1 != 0);
        q.entries.push_back(e);
        i += 1;
    }
    let id: u32 = kani::any();
    q.mark_seen(id, kani::any());
    // per-connection receive state bounded by protocol constants: the queue of owed ack groups should
    // not be able to grow without limit while no ack frame can be emitted (no flush, or no send budget)
    assert!(q.entries.len() <= 3, "[C06] pending ack groups bounded by window/32+1");
    std::mem::forget(q);
}

//@file parent=src/server/mod.rs ignore=^__rust_dealloc\s\|
// Server lifecycle: handshake (C07), event grammar (C08), disconnect (C09), timeouts (C10), limits (C17),
// amplification (C18).  Environment: VecMap for HashMap (<= 4 tracked addresses), opaque connection model,
// ghost-logged socket model, any-u32 nonce source (see env.rs).
use super::*;
use crate::verif_env as env;
use crate::verif_env::opaque as oq;

fn addr(port: u16) -> net::SocketAddr { net::SocketAddr::new(net::IpAddr::V4(net::Ipv4Addr::LOCALHOST), port) }
const A: u16 = 1001;
const B: u16 = 1002;
const C: u16 = 1003;

fn any_time() -> u64 { let t: u64 = kani::any(); kani::assume(t < 1 << 40); t }

// Endpoint configuration: the two size limits that the handshake compares are symbolic, the rest is the
// default configuration (the server obligations do not branch on it).
fn any_cfg() -> EndpointConfig {
    let mut c = EndpointConfig::default();
    c.max_packet_size = kani::any();
    c.max_receive_alloc = kani::any();
    c.max_send_rate = kani::any();
    kani::assume(c.is_valid());
    c
}

fn mk_server(max_total: usize, max_active: usize, cfg: EndpointConfig) -> Server {
    oq::reset();
    Server {
        socket: net::UdpSocket::model(),
        config: Config { max_total_connections: max_total, max_active_connections: max_active, enable_handshake_errors: kani::any(), endpoint_config: cfg },
        clients: HashMap::new(),
        active_clients: Vec::new(),
        client_events: event_queue::EventQueue::new(),
        time_base: env::fake_instant(),
        events_out: Vec::new(),
    }
}

fn be32(h: &[u8; 10], off: usize) -> u32 { ((h[off] as u32) << 24) | ((h[off + 1] as u32) << 16) | ((h[off + 2] as u32) << 8) | h[off + 3] as u32 }

fn any_syn(compatible: bool, cfg: &EndpointConfig) -> frame::HandshakeSynFrame {
    let f = frame::HandshakeSynFrame { version: kani::any(), nonce: kani::any(), max_receive_rate: kani::any(), max_packet_size: kani::any(), max_receive_alloc: kani::any() };
    if compatible {
        kani::assume(f.version == PROTOCOL_VERSION);
        kani::assume(f.max_receive_alloc as usize >= cfg.max_packet_size && f.max_packet_size as usize <= cfg.max_receive_alloc);
    }
    f
}

fn count_events(s: &Server, port: u16) -> (usize, usize, usize, usize) {
    // (connect, disconnect, receive, error) for one address
    let (mut c, mut d, mut r, mut e) = (0, 0, 0, 0);
    let mut i = 0;
    while i < s.events_out.len() {
        match s.events_out[i] {
            Event::Connect(a) => if a.port() == port { c += 1 },
            Event::Disconnect(a) => if a.port() == port { d += 1 },
            Event::Receive(a, _) => if a.port() == port { r += 1 },
            Event::Error(a, _) => if a.port() == port { e += 1 },
        }
        i += 1;
    }
    (c, d, r, e)
}

fn class_of(s: &Server, port: u16) -> u8 {
    // 0 untracked, 1 pending, 2 active, 3 closing, 4 closed
    match s.clients.get(&addr(port)) {
        None => 0,
        Some(rc) => match rc.borrow().state {
            remote_client::State::Pending(_) => 1,
            remote_client::State::Active(_) => 2,
            remote_client::State::Closing => 3,
            remote_client::State::Closed => 4,
            remote_client::State::Fin => 5,
        }
    }
}

fn n_established(s: &Server) -> usize {
    (class_of(s, A) == 2) as usize + (class_of(s, B) == 2) as usize + (class_of(s, C) == 2) as usize
}

// ---- C07 ------------------------------------------------------------------------------------

//@h props=C07,C18 tier=quick timeout=1800 role=server-syn-reply args=--no-memory-safety-checks
//@fn Server::{handle_frame, handle_handshake_syn}, Frame::write (SYN-ACK, error)
//@bound empty server, limits (4, 4); config: max_packet_size / max_receive_alloc / max_send_rate any valid; ONE SYN with every field any from address A
//@assume VecMap for HashMap; opaque connection model; socket model; nonce source = any u32; crc::compute stubbed (constant); Kani pointer checks off (lifecycle logic only)
#[kani::proof]
#[kani::unwind(6)]
#[kani::stub(crate::frame::serial::crc::compute, crate::frame::serial::verif_codec::crc_stub)]
fn o7_1_server_syn_reply() {
    let cfg = any_cfg();
    let mut s = mk_server(4, 4, cfg.clone());
    let syn = any_syn(false, &cfg);
    s.handle_frame(addr(A), frame::Frame::HandshakeSynFrame(syn.clone()), 1000);
    let accepted = class_of(&s, A) == 1;
    let ok = syn.version == PROTOCOL_VERSION && (syn.max_receive_alloc as usize) >= cfg.max_packet_size && (syn.max_packet_size as usize) <= cfg.max_receive_alloc;
    assert!(accepted == ok, "[C07] a compatible SYN is tracked, an incompatible one is not");
    assert!(s.socket.sent_n() == 1 && s.socket.sent(0).port == A, "[C07,C18] exactly one reply, to the sender");
    let r = s.socket.sent(0);
    if ok {
        assert!(r.len == 25 && r.head[0] == 1 && be32(&r.head, 1) == syn.nonce, "[C07] SYN-ACK echoes the client's nonce");
        assert!(unsafe { env::RANDOM_CALLS } == 1 && be32(&r.head, 5) == unsafe { env::RANDOM_LAST }, "[C07] the SYN-ACK carries a freshly drawn nonce");
    } else {
        assert!(r.len == 10 && r.head[0] == 3 && be32(&r.head, 1) == syn.nonce, "[C07] a refusal echoes the client's nonce");
        if syn.version != PROTOCOL_VERSION { assert!(r.head[5] == 0, "[C07] version mismatch refused with Version"); }
        else { assert!(r.head[5] == 1, "[C07] configuration mismatch refused with Config"); }
    }
    assert!(s.events_out.len() <= 1 && count_events(&s, A).0 == 0, "[C07] no Connect before the nonce came back");
    kani::cover!(ok, "accepted");
    kani::cover!(!ok && syn.version == PROTOCOL_VERSION, "config refusal");
    std::mem::forget(s);
}

fn server_ack_gate(from_b: bool) {
    // default configuration, SYN compatible by construction (see ack_gate_shape); the ACK's nonce is fully symbolic
    let cfg = EndpointConfig::default();
    let mut s = mk_server(4, 4, cfg.clone());
    let syn = ok_syn();
    s.handle_frame(addr(A), frame::Frame::HandshakeSynFrame(syn.clone()), 1000);
    let server_nonce = unsafe { env::RANDOM_LAST };
    let ack_nonce: u32 = kani::any();
    s.handle_frame(addr(if from_b { B } else { A }), frame::Frame::HandshakeAckFrame(frame::HandshakeAckFrame { nonce_ack: ack_nonce }), 1500);
    let ca = count_events(&s, A).0;
    assert!(count_events(&s, B).0 == 0 && class_of(&s, B) == 0, "[C07] an ACK from an address that never sent a SYN creates nothing");
    if !from_b && ack_nonce == server_nonce {
        assert!(ca == 1 && class_of(&s, A) == 2 && unsafe { oq::NEW_COUNT } == 1, "[C07] Connect once the address returned the server's nonce");
    } else {
        assert!(ca == 0 && unsafe { oq::NEW_COUNT } == 0 && class_of(&s, A) == 1, "[C07] no Connect without the right nonce from the right address");
    }
    kani::cover!(from_b || ca == 1, "handshake completed");
    kani::cover!(ca == 0, "no Connect");
    std::mem::forget(s);
}

//@h props=C07,C08 tier=quick timeout=1200 role=server-ack-gate args=--no-memory-safety-checks
//@fn Server::{handle_frame, handle_handshake_syn, handle_handshake_ack}
//@bound compatible SYN (default configuration, nonce any) from A, then ACK with ANY nonce from A
//@assume VecMap; opaque connection model; socket model; nonce source any; crc stubbed; pointer checks off
#[kani::proof]
#[kani::unwind(6)]
#[kani::stub(crate::frame::serial::crc::compute, crate::frame::serial::verif_codec::crc_stub)]
fn o7_1_server_connect_requires_nonce() { server_ack_gate(false); }

//@h props=C07,C08 tier=quick timeout=1200 role=server-ack-gate args=--no-memory-safety-checks
//@fn Server::{handle_frame, handle_handshake_syn, handle_handshake_ack}
//@bound compatible SYN from A, then ACK with ANY nonce (the right one included) from another address B
//@assume VecMap; opaque connection model; socket model; nonce source any; crc stubbed; pointer checks off
#[kani::proof]
#[kani::unwind(6)]
#[kani::stub(crate::frame::serial::crc::compute, crate::frame::serial::verif_codec::crc_stub)]
fn o7_1_server_ack_from_other_address() { server_ack_gate(true); }

fn ack_gate_shape(server_nonce: u32, ack_nonce: u32, from_b: bool) {
    unsafe { env::RANDOM_FIXED = Some(server_nonce); }
    // default configuration and a SYN that is compatible by construction (only its nonce is symbolic): whether the SYN is accepted
    // decides a heap-modifying branch (DESIGN.md 10.8); every SYN field is symbolic in o7_1_server_syn_reply / o7_3
    let cfg = EndpointConfig::default();
    let mut s = mk_server(4, 4, cfg.clone());
    let syn = ok_syn();
    s.handle_frame(addr(A), frame::Frame::HandshakeSynFrame(syn.clone()), 1000);
    s.handle_frame(addr(if from_b { B } else { A }), frame::Frame::HandshakeAckFrame(frame::HandshakeAckFrame { nonce_ack: ack_nonce }), 1500);
    let ca = count_events(&s, A).0;
    assert!(count_events(&s, B).0 == 0 && class_of(&s, B) == 0, "[C07] an ACK from an address that never sent a SYN creates nothing");
    if !from_b && ack_nonce == server_nonce {
        assert!(ca == 1 && class_of(&s, A) == 2 && unsafe { oq::NEW_COUNT } == 1, "[C07] Connect once the address returned the server's nonce");
    } else {
        assert!(ca == 0 && unsafe { oq::NEW_COUNT } == 0 && class_of(&s, A) == 1, "[C07] no Connect without the right nonce from the right address");
    }
    unsafe { env::RANDOM_FIXED = None; }
    std::mem::forget(s);
}

//@h props=C07,C08 tier=quick timeout=1200 role=server-ack-gate-shapes args=--no-memory-safety-checks
//@fn Server::{handle_frame, handle_handshake_syn, handle_handshake_ack}
//@bound compatible SYN (default configuration, nonce any) from A; server nonce pinned to 0x80000001; ACK shapes: nonce off by one bit (0x80000000) from A -> no Connect
//@assume VecMap; opaque connection model; socket model; nonce source pinned; crc stubbed; pointer checks off
#[kani::proof]
#[kani::unwind(6)]
#[kani::stub(crate::frame::serial::crc::compute, crate::frame::serial::verif_codec::crc_stub)]
fn o7_1_server_ack_wrong_nonce_shape() { ack_gate_shape(0x8000_0001, 0x8000_0000, false); }

//@h props=C07,C08 tier=quick timeout=1200 role=server-ack-gate-shapes args=--no-memory-safety-checks
//@fn Server::{handle_frame, handle_handshake_syn, handle_handshake_ack}
//@bound compatible SYN (default configuration, nonce any) from A; server nonce pinned; the RIGHT nonce arrives from another address B -> no Connect, nothing created for B
//@assume VecMap; opaque connection model; socket model; nonce source pinned; crc stubbed; pointer checks off
#[kani::proof]
#[kani::unwind(6)]
#[kani::stub(crate::frame::serial::crc::compute, crate::frame::serial::verif_codec::crc_stub)]
fn o7_1_server_right_nonce_wrong_address_shape() { ack_gate_shape(0x0012_3456, 0x0012_3456, true); }

//@h props=C07,C13,C06 tier=quick timeout=1800 role=server-negotiation args=--no-memory-safety-checks
//@fn Server::{handle_frame, handle_handshake_syn, handle_handshake_ack}
//@bound compatible SYN (fields any) from A, then the genuine ACK: the Config handed to the connection
//@assume VecMap; opaque connection model (records its Config); socket model; nonce source any; crc stubbed; pointer checks off
#[kani::proof]
#[kani::unwind(6)]
#[kani::stub(crate::frame::serial::crc::compute, crate::frame::serial::verif_codec::crc_stub)]
fn o7_3_server_negotiated_config() {
    let cfg = any_cfg();
    let mut s = mk_server(4, 4, cfg.clone());
    let syn = any_syn(true, &cfg);
    s.handle_frame(addr(A), frame::Frame::HandshakeSynFrame(syn.clone()), 1000);
    let server_nonce = unsafe { env::RANDOM_LAST };
    s.handle_frame(addr(A), frame::Frame::HandshakeAckFrame(frame::HandshakeAckFrame { nonce_ack: server_nonce }), 1500);
    let hc = match s.clients.get(&addr(A)).unwrap().borrow().state { remote_client::State::Active(ref st) => st.half_connection.config.clone().unwrap(), _ => panic!("[C07] not connected") };
    assert!(hc.tx_frame_base_id == server_nonce && hc.rx_frame_base_id == syn.nonce, "[C07] frame ids start at the exchanged nonces");
    assert!(hc.tx_packet_base_id == (server_nonce & 0xFFFFF) && hc.rx_packet_base_id == (syn.nonce & 0xFFFFF), "[C07] packet ids start at the exchanged nonces (20 bit)");
    assert!(hc.tx_bandwidth_limit == (cfg.max_send_rate as u32).min(syn.max_receive_rate), "[C07,C13] rate ceiling = min(local max_send_rate, peer max_receive_rate)");
    assert!(hc.tx_alloc_limit == syn.max_receive_alloc as usize && hc.rx_alloc_limit == cfg.max_receive_alloc, "[C07,C06] allocation limits: peer's for sending, ours for receiving");
    assert!(hc.tx_frame_window_size == 4096 && hc.rx_frame_window_size == 4096 && hc.tx_packet_window_size == 4096 && hc.rx_packet_window_size == 4096);
    std::mem::forget(s);
}

//@h props=C07,C08 tier=quick timeout=1200 role=server-no-reset args=--no-memory-safety-checks
//@fn Server::{handle_frame, handle_handshake_syn, handle_handshake_ack}
//@bound server with an ESTABLISHED connection for A (default configuration; handshake run through the code); then a second SYN (every field any) from A
//@assume VecMap; opaque connection model; socket model; nonce source any; crc stubbed
#[kani::proof]
#[kani::unwind(6)]
#[kani::stub(crate::frame::serial::crc::compute, crate::frame::serial::verif_codec::crc_stub)]
fn o7_5_server_established_not_reset_by_second_syn() { established_not_reset(true) }
// (an ACK with any nonce on an established connection: o8_2_server_active_frame_ack, from a constructed Active state - the
// same script after a handshake run through the code needs 26 GB in CBMC, DESIGN.md 10.8)
fn established_not_reset(second_is_syn: bool) {
    let cfg = EndpointConfig::default();
    let mut s = mk_server(4, 4, cfg.clone());
    let syn = ok_syn();
    s.handle_frame(addr(A), frame::Frame::HandshakeSynFrame(syn), 0);
    let server_nonce = unsafe { env::RANDOM_LAST };
    s.handle_frame(addr(A), frame::Frame::HandshakeAckFrame(frame::HandshakeAckFrame { nonce_ack: server_nonce }), 0);
    assert!(class_of(&s, A) == 2 && count_events(&s, A).0 == 1);
    let sent0 = s.socket.sent_n();
    if second_is_syn {
        s.handle_frame(addr(A), frame::Frame::HandshakeSynFrame(any_syn(false, &cfg)), 7);
    } else {
        s.handle_frame(addr(A), frame::Frame::HandshakeAckFrame(frame::HandshakeAckFrame { nonce_ack: kani::any() }), 7);
    }
    assert!(class_of(&s, A) == 2 && count_events(&s, A).0 == 1 && unsafe { oq::NEW_COUNT } == 1,
            "[C07,C08] stale, duplicated or forged handshake frames never reset, replace or re-announce an established connection");
    assert!(s.socket.sent_n() == sent0, "[C18] and draw no reply");
    assert!(unsafe { env::RANDOM_CALLS } == 1);
    std::mem::forget(s);
}

// ---- C17 ------------------------------------------------------------------------------------

// The limit obligations count connections; they use the default endpoint configuration and SYNs that are
// compatible with it by construction (nonce any), so that the handlers' refusal branches stay concrete.
fn ok_syn() -> frame::HandshakeSynFrame {
    frame::HandshakeSynFrame { version: PROTOCOL_VERSION, nonce: kani::any(), max_receive_rate: 1_000_000, max_packet_size: 1000, max_receive_alloc: 2_000_000 }
}

fn complete_handshake(s: &mut Server, port: u16, cfg: &EndpointConfig, t: u64) -> bool {
    let before = unsafe { env::RANDOM_CALLS };
    s.handle_frame(addr(port), frame::Frame::HandshakeSynFrame(ok_syn()), t);
    if unsafe { env::RANDOM_CALLS } == before { return false; }
    let n = unsafe { env::RANDOM_LAST };
    s.handle_frame(addr(port), frame::Frame::HandshakeAckFrame(frame::HandshakeAckFrame { nonce_ack: n }), t);
    true
}

// (The first build's script "SYN A, SYN B, ACK A, ACK B through the code" (limits 2,1) is retired: after handshakes run through the
// code the second ACK exhausts CBMC's memory (DESIGN.md 10.8).  Its clauses are decided from constructed states by
// o17_1_refused_at_ack_time_frees_its_slot (ACK-time limit, which also re-finds F8 on the pre-fix tree), o17_1_total_limit_refuses_with_server_full
// and o17_1_active_limit_refuses_syn.)

//@h props=C17 tier=quick timeout=2400 role=server-limits-total args=--no-memory-safety-checks
//@fn Server::{handle_frame, handle_handshake_syn}
//@bound limits (max_total 1, max_active 1); compatible SYN from A, then compatible SYN from B
//@assume VecMap; opaque connection model; socket model; nonce source any; crc stubbed
#[kani::proof]
#[kani::unwind(6)]
#[kani::stub(crate::frame::serial::crc::compute, crate::frame::serial::verif_codec::crc_stub)]
fn o17_1_total_limit_refuses_with_server_full() {
    let cfg = EndpointConfig::default();
    let mut s = mk_server(1, 1, cfg.clone());
    s.handle_frame(addr(A), frame::Frame::HandshakeSynFrame(ok_syn()), 0);
    assert!(class_of(&s, A) == 1);
    let syn_b = ok_syn();
    s.handle_frame(addr(B), frame::Frame::HandshakeSynFrame(syn_b.clone()), 0);
    assert!(class_of(&s, B) == 0 && s.clients.len() == 1, "[C17] a handshake that would exceed max_total_connections is not tracked");
    assert!(s.socket.sent_n() == 2);
    let r = s.socket.sent(1);
    assert!(r.port == B && r.len == 10 && r.head[0] == 3 && r.head[5] == 2 && be32(&r.head, 1) == syn_b.nonce, "[C17] it is refused with ServerFull");
    std::mem::forget(s);
}

//@h props=C17,C08 tier=quick timeout=1200 role=server-limits-capacity-returns args=--no-memory-safety-checks
//@fn Server::{handle_event, handle_frame, handle_handshake_syn}
//@bound limits (1,1); address A in state Closed (constructed; it left the active list in an earlier step), its forget timer entry fires at any time; then a SYN from B
//@assume as o8_2_server_pending_frame_syn (constructed lifecycle state; the timer loop of handle_events is modelled by calling handle_event on the entry)
#[kani::proof]
#[kani::unwind(6)]
#[kani::stub(crate::frame::serial::crc::compute, crate::frame::serial::verif_codec::crc_stub)]
fn o17_1_capacity_returns_after_connection_ends() {
    let cfg = EndpointConfig::default();
    let mut s = mk_server(1, 1, cfg);
    let ra = Rc::new(RefCell::new(remote_client::RemoteClient { address: addr(A), max_packet_size: 1000, state: remote_client::State::Closed }));
    s.clients.insert(addr(A), Rc::clone(&ra));
    // while A is still tracked the server is full
    s.handle_frame(addr(B), frame::Frame::HandshakeSynFrame(ok_syn()), 5);
    assert!(class_of(&s, B) == 0 && s.socket.sent_n() == 1 && s.socket.sent(0).head[0] == 3 && s.socket.sent(0).head[5] == 2, "[C17] max_total_connections counts a connection until it is forgotten: ServerFull");
    let t = any_time();
    s.handle_event(event_queue::Event::new(Rc::clone(&ra), event_queue::EventType::ClosedTimeout, 0, 0), t);
    assert!(class_of(&s, A) == 0 && s.clients.len() == 0, "[C17] the closed connection is forgotten when its timer fires");
    s.handle_frame(addr(B), frame::Frame::HandshakeSynFrame(ok_syn()), t);
    assert!(class_of(&s, B) == 1 && s.socket.sent_n() == 2 && s.socket.sent(1).head[0] == 1, "[C17] capacity becomes available again when a connection ends: SYN-ACK");
    std::mem::forget(ra);
    std::mem::forget(s);
}

//@h props=C17 tier=quick timeout=1800 role=server-limits-active args=--no-memory-safety-checks
//@fn Server::{handle_frame, handle_handshake_syn, handle_handshake_ack}
//@bound limits (max_total 2, max_active 1); A completes its handshake; then a compatible SYN from B
//@assume VecMap; opaque connection model; socket model; nonce source any; crc stubbed; pointer checks off
#[kani::proof]
#[kani::unwind(6)]
#[kani::stub(crate::frame::serial::crc::compute, crate::frame::serial::verif_codec::crc_stub)]
fn o17_1_active_limit_refuses_syn() {
    let cfg = EndpointConfig::default();
    let mut s = mk_server(2, 1, cfg.clone());
    assert!(complete_handshake(&mut s, A, &cfg, 0));
    assert!(class_of(&s, A) == 2 && n_established(&s) == 1);
    let syn_b = ok_syn();
    s.handle_frame(addr(B), frame::Frame::HandshakeSynFrame(syn_b.clone()), 5);
    assert!(class_of(&s, B) == 0, "[C17] a handshake that would exceed max_active_connections is refused");
    let r = s.socket.sent(s.socket.sent_n() - 1);
    assert!(r.port == B && r.len == 10 && r.head[0] == 3 && r.head[5] == 2 && be32(&r.head, 1) == syn_b.nonce, "[C17] ... with ServerFull");
    assert!(n_established(&s) == 1 && s.clients.len() == 1);
    std::mem::forget(s);
}

// ---- C18 ------------------------------------------------------------------------------------

fn amplification_step(start_pending: bool, k: u8) { amplification_step_at(start_pending, k, None) }
fn amplification_step_at(start_pending: bool, k: u8, fixed_t: Option<u64>) {
    // untracked address: configuration limits symbolic (the SYN under test explores every refusal);
    // pending address: default configuration and a SYN compatible by construction, so that the entry exists on
    // every path (the first SYN's own replies are the subject of the untracked shape)
    let cfg = if start_pending { EndpointConfig::default() } else { any_cfg() };
    let mut s = mk_server(4, 4, cfg.clone());
    // potential: received - sent - 25 * (SYN-ACK resends still owed)
    let mut recv: usize = 0;
    if start_pending {
        s.handle_frame(addr(A), frame::Frame::HandshakeSynFrame(ok_syn()), 0);
        recv += 1472;
        assert!(class_of(&s, A) == 1);
    }
    let mut left0: usize = if start_pending { 10 } else { 0 };
    let mut phi0 = recv as isize - s.socket.sent_bytes() as isize - 25 * left0 as isize;
    if start_pending { assert!(phi0 >= 1472 - 25 - 250, "[C18] replies to a first SYN stay far below its size, resends included"); }
    // the time of the step is symbolic except in the timer shapes, where it decides a heap-modifying branch (DESIGN.md 10.8)
    let t = match fixed_t { Some(x) => x, None => any_time() };
    let sent0 = s.socket.sent_bytes();
    let got: usize = match k {
        0 => { s.handle_frame(addr(A), frame::Frame::HandshakeSynFrame(any_syn(false, &cfg)), t); 1472 }
        1 => { s.handle_frame(addr(A), frame::Frame::HandshakeSynAckFrame(frame::HandshakeSynAckFrame { nonce_ack: kani::any(), nonce: kani::any(), max_receive_rate: 0, max_packet_size: 0, max_receive_alloc: 0 }), t); 25 }
        2 => { // an ACK with a wrong nonce (the right one verifies the address: then the property no longer speaks about it)
               let n: u32 = kani::any();
               if start_pending { kani::assume(n != unsafe { env::RANDOM_LAST }); }
               s.handle_frame(addr(A), frame::Frame::HandshakeAckFrame(frame::HandshakeAckFrame { nonce_ack: n }), t); 9 }
        3 => { s.handle_frame(addr(A), frame::Frame::HandshakeErrorFrame(frame::HandshakeErrorFrame { nonce_ack: kani::any(), error: frame::HandshakeErrorType::Config }), t); 10 }
        4 => { s.handle_frame(addr(A), frame::Frame::DisconnectFrame(frame::DisconnectFrame {}), t); 5 }
        5 => { s.handle_frame(addr(A), frame::Frame::DisconnectAckFrame(frame::DisconnectAckFrame {}), t); 5 }
        6 => { s.handle_frame(addr(A), frame::Frame::DataFrame(frame::DataFrame { sequence_id: kani::any(), nonce: kani::any(), datagrams: Vec::new() }), t); 10 }
        7 => { s.handle_frame(addr(A), frame::Frame::SyncFrame(frame::SyncFrame { next_frame_id: None, next_packet_id: None }), t); 14 }
        8 => { s.handle_frame(addr(A), frame::Frame::AckFrame(frame::AckFrame { frame_window_base_id: kani::any(), packet_window_base_id: kani::any(), frame_acks: Vec::new() }), t); 15 }
        _ => {
            // one firing of the pending address's resend timer
            let mut ev = s.client_events.pop().unwrap();
            assert!(ev.kind == event_queue::EventType::ResendHandshakeSynAck && ev.count == 10 && ev.time == 2000, "[C18] an accepted SYN arms 10 resends, 2 s apart");
            let c: u8 = kani::any();
            kani::assume(c <= 10);
            ev.count = c;
            left0 = c as usize;
            phi0 = recv as isize - s.socket.sent_bytes() as isize - 25 * left0 as isize;
            s.handle_event(ev, t);
            if c > 0 {
                let again = s.client_events.peek().unwrap();
                assert!(again.count == c - 1 && again.time > t, "[C18] re-armed strictly in the future with one resend less");
            } else {
                assert!(s.client_events.peek().is_none() && class_of(&s, A) == 0, "[C18] after the last resend the address is forgotten");
            }
            0
        }
    };
    recv += got;
    let sent_now = s.socket.sent_bytes() - sent0;
    // resends still owed after the step
    let pending_after = class_of(&s, A) == 1;
    let left1: usize = if pending_after {
        if k == 9 && sent_now > 0 { left0 - 1 } else if left0 == 0 { 10 } else { left0 }
    } else { 0 };
    let phi1 = recv as isize - s.socket.sent_bytes() as isize - 25 * left1 as isize;
    assert!(unsafe { oq::NEW_COUNT } == 0, "[C18,C07] no connection without the nonce");
    assert!(phi1 >= phi0, "[C18] no step lets the bytes sent to an unverified address (plus resends still owed) gain on the bytes received from it");
    if got > 0 { assert!(phi1 >= phi0 + 5, "[C18] every datagram received adds at least 5 bytes of margin"); }
    if k == 9 { assert!(sent_now <= 25, "[C18] a timer evaluation sends at most one SYN-ACK resend"); }
    assert!(s.socket.sent_bytes() < recv || (recv == 0 && s.socket.sent_bytes() == 0), "[C18] total sent stays below total received");
    std::mem::forget(s);
}

// a SYN compatible with the given configuration (nonce and rate any)
fn ok_syn_for(cfg: &EndpointConfig) -> frame::HandshakeSynFrame { any_syn(true, cfg) }

macro_rules! amp {
    ($name:ident, $pending:expr, $k:expr) => {
        #[kani::proof]
        #[kani::unwind(6)]
        #[kani::stub(crate::frame::serial::crc::compute, crate::frame::serial::verif_codec::crc_stub)]
        fn $name() { amplification_step($pending, $k); }
    };
}

//@h props=C18 tier=quick timeout=1500 role=server-amplification args=--no-memory-safety-checks
//@fn Server::{handle_frame, handle_handshake_syn}
//@bound address A untracked; ONE SYN with every field any (compatible, wrong version, incompatible limits): replies are 25 or 10 bytes against 1472 received
//@assume VecMap; opaque connection model; socket model; nonce source any; crc stubbed; pointer checks off; received bytes counted at the exact wire size of each frame type (codec obligations)
amp!(o18_1_untracked_syn, false, 0);
//@h props=C18 tier=quick timeout=1500 role=server-amplification args=--no-memory-safety-checks cbmc=--max-field-sensitivity-array-size+512
//@fn Server::{handle_frame, handle_handshake_syn}
//@bound address A pending (entry created by the code); a second SYN with every field any
//@assume as o18_1_untracked_syn
amp!(o18_1_pending_repeated_syn, true, 0);
//@h props=C18 tier=quick timeout=1500 role=server-amplification args=--no-memory-safety-checks cbmc=--max-field-sensitivity-array-size+512
//@fn Server::{handle_frame, handle_handshake_ack}
//@bound address A pending; a handshake ACK with ANY wrong nonce
//@assume as o18_1_untracked_syn
amp!(o18_1_pending_wrong_ack, true, 2);
//@h props=C18 tier=quick timeout=1500 role=server-amplification args=--no-memory-safety-checks
//@fn Server::handle_event (the body of the timer loop of handle_events)
//@bound address A pending (entry created by the code); its SYN-ACK resend timer entry is taken from the timer queue and handed to handle_event with ANY remaining count <= 10 at ANY time < 2^40: at most one 25-byte resend, the count decreases, the entry is re-armed strictly in the future (so the loop of handle_events cannot fire it again in the same evaluation) or the address is forgotten
//@assume as o18_1_untracked_syn; the two-line loop of handle_events (peek; break if not due; pop; handle_event) is modelled by the obligation popping the entry itself: running a due entry through the real loop makes CBMC run out of memory even for fully concrete inputs (DESIGN.md 10.8)
amp!(o18_1_pending_timer, true, 9);
//@h props=C18 tier=thorough timeout=1500 role=server-amplification args=--no-memory-safety-checks
//@fn Server::handle_frame (stray frame types)
//@bound address A pending; a Disconnect frame
//@assume as o18_1_untracked_syn
amp!(o18_1_pending_disconnect, true, 4);
//@h props=C18 tier=thorough timeout=1500 role=server-amplification args=--no-memory-safety-checks
//@fn Server::handle_frame (stray frame types)
//@bound address A pending; a data frame
//@assume as o18_1_untracked_syn
amp!(o18_1_pending_data, true, 6);
//@h props=C18 tier=thorough timeout=1500 role=server-amplification args=--no-memory-safety-checks
//@fn Server::handle_frame (stray frame types)
//@bound address A untracked; a handshake ACK / Disconnect / data / sync / ack frame (five obligations share this shape: this one is the ACK)
//@assume as o18_1_untracked_syn
amp!(o18_1_untracked_ack, false, 2);
//@h props=C18 tier=thorough timeout=1500 role=server-amplification args=--no-memory-safety-checks
//@fn Server::handle_frame (stray frame types)
//@bound address A untracked; a Disconnect frame
//@assume as o18_1_untracked_syn
amp!(o18_1_untracked_disconnect, false, 4);
//@h props=C18 tier=thorough timeout=1500 role=server-amplification args=--no-memory-safety-checks
//@fn Server::handle_frame (stray frame types)
//@bound address A pending; a sync frame; an ack frame (this one: sync)
//@assume as o18_1_untracked_syn
amp!(o18_1_pending_sync, true, 7);

// ---- C08: per-address event grammar, one operation from any lifecycle state ---------------------

fn any_frame() -> frame::Frame { let k: u8 = kani::any(); kani::assume(k < 9); frame_of_kind(k) }
fn frame_of_kind(k: u8) -> frame::Frame {
    match k {
        0 => frame::Frame::HandshakeSynFrame(frame::HandshakeSynFrame { version: kani::any(), nonce: kani::any(), max_receive_rate: kani::any(), max_packet_size: kani::any(), max_receive_alloc: kani::any() }),
        1 => frame::Frame::HandshakeSynAckFrame(frame::HandshakeSynAckFrame { nonce_ack: kani::any(), nonce: kani::any(), max_receive_rate: kani::any(), max_packet_size: kani::any(), max_receive_alloc: kani::any() }),
        2 => frame::Frame::HandshakeAckFrame(frame::HandshakeAckFrame { nonce_ack: kani::any() }),
        3 => frame::Frame::HandshakeErrorFrame(frame::HandshakeErrorFrame { nonce_ack: kani::any(), error: frame::HandshakeErrorType::ServerFull }),
        4 => frame::Frame::DisconnectFrame(frame::DisconnectFrame {}),
        5 => frame::Frame::DisconnectAckFrame(frame::DisconnectAckFrame {}),
        6 => frame::Frame::DataFrame(frame::DataFrame { sequence_id: kani::any(), nonce: kani::any(), datagrams: Vec::new() }),
        7 => frame::Frame::SyncFrame(frame::SyncFrame { next_frame_id: if kani::any() { Some(kani::any()) } else { None }, next_packet_id: if kani::any() { Some(kani::any()) } else { None } }),
        _ => frame::Frame::AckFrame(frame::AckFrame { frame_window_base_id: kani::any(), packet_window_base_id: kani::any(), frame_acks: Vec::new() }),
    }
}

// Tracked entry for address A in the given lifecycle class, with the timer entry / active-list entry the code
// itself creates for that state (fields any).
fn track(s: &mut Server, class: u8) -> (Rc<RefCell<remote_client::RemoteClient>>, Option<event_queue::Event>) {
    let state = match class {
        1 => remote_client::State::Pending(remote_client::PendingState { local_nonce: kani::any(), remote_nonce: kani::any(), remote_max_receive_rate: kani::any(),
                                                                          remote_max_receive_alloc: kani::any(), reply_bytes: Box::new([1u8; 25]) }),
        2 => {
            let sig: u8 = kani::any();
            kani::assume(sig < 3);
            let disconnect_signal = if sig == 0 { None } else if sig == 1 { Some(remote_client::DisconnectMode::Now) } else { Some(remote_client::DisconnectMode::Flush) };
            remote_client::State::Active(remote_client::ActiveState { half_connection: oq::HalfConnection::model(), timeout_time_ms: any_time(), disconnect_signal })
        }
        3 => remote_client::State::Closing,
        _ => remote_client::State::Closed,
    };
    let rc = Rc::new(RefCell::new(remote_client::RemoteClient { address: addr(A), state, max_packet_size: 1000 }));
    s.clients.insert(addr(A), Rc::clone(&rc));
    let count: u8 = kani::any();
    kani::assume(count <= 10);
    // The timer entry the code keeps for this state is handed back to the obligation instead of being queued: the
    // obligation fires it by calling handle_event (the body of the timer loop of handle_events) when it is due.
    let timer = match class {
        1 => Some(event_queue::Event::new(Rc::clone(&rc), event_queue::EventType::ResendHandshakeSynAck, any_time(), count)),
        2 => { s.active_clients.push(Rc::clone(&rc)); None }
        3 => { s.active_clients.push(Rc::clone(&rc)); Some(event_queue::Event::new(Rc::clone(&rc), event_queue::EventType::ResendDisconnect, any_time(), count)) }
        _ => Some(event_queue::Event::new(Rc::clone(&rc), event_queue::EventType::ClosedTimeout, any_time(), 0)),
    };
    (rc, timer)
}

struct Ev { n: usize, connect: usize, receive: usize, disconnect: usize, error: usize, other_addr: usize, last_is_terminal: bool, receive_after_terminal: bool }
fn summarise(s: &Server) -> Ev {
    let mut e = Ev { n: 0, connect: 0, receive: 0, disconnect: 0, error: 0, other_addr: 0, last_is_terminal: false, receive_after_terminal: false };
    let mut i = 0;
    let mut terminal_seen = false;
    while i < s.events_out.len() {
        let (a, kind) = match s.events_out[i] { Event::Connect(a) => (a, 0), Event::Receive(a, _) => (a, 1), Event::Disconnect(a) => (a, 2), Event::Error(a, _) => (a, 3) };
        if a.port() != A { e.other_addr += 1; } else {
            e.n += 1;
            match kind { 0 => e.connect += 1, 1 => { e.receive += 1; if terminal_seen { e.receive_after_terminal = true; } } 2 => { e.disconnect += 1; terminal_seen = true; } _ => { e.error += 1; terminal_seen = true; } }
            e.last_is_terminal = kind >= 2;
        }
        i += 1;
    }
    e
}

// op: 0 = a frame of kind `kind` from A (fields any), 1 = A's due timer entry fires, 2 = step_active_clients, 3/4/5 = application calls,
// 6 = drop(), 7 = active-timeout scan.  class/op/kind are concrete per obligation (each is a heap-modifying case split, DESIGN.md 10.8).
fn server_grammar_step_op(class: u8, op: u8, kind: u8) {
    // kind >= 16: the connection model delivers a packet in receive(); otherwise it delivers none
    unsafe { oq::DELIVER_FIXED = Some(kind >= 16); }
    let kind = kind & 15;
    let cfg = EndpointConfig::default();
    let mut s = mk_server(4, 4, cfg);
    let (rc, timer) = track(&mut s, class);
    let now = any_time();
    // snapshots for the clauses of C10 (active deadline) and C07 (a pending handshake is not rewritten)
    let deadline0: Option<u64> = match rc.borrow().state { remote_client::State::Active(ref st) => Some(st.timeout_time_ms), _ => None };
    let pending0: Option<(u32, u32, u32, u32)> = match rc.borrow().state { remote_client::State::Pending(ref st) => Some((st.local_nonce, st.remote_nonce, st.remote_max_receive_rate, st.remote_max_receive_alloc)), _ => None };
    let active_timeout_ms = s.config.endpoint_config.active_timeout_ms;
    match op {
        0 => s.handle_frame(addr(A), frame_of_kind(kind), now),
        // handle_events = (a) fire every due timer entry, (b) scan the active connections for the active timeout
        1 => match timer { Some(ev) => { kani::assume(ev.time <= now); s.handle_event(ev, now); } None => () },
        7 => s.handle_events(now),
        2 => s.step_active_clients(now),
        3 => rc.borrow_mut().disconnect(),
        4 => rc.borrow_mut().disconnect_now(),
        5 => rc.borrow_mut().send(Box::new([1u8]), 0, crate::SendMode::Reliable),
        _ => s.drop(&addr(A)),
    }
    let c1 = class_of(&s, A);
    let e = summarise(&s);
    assert!(e.other_addr == 0, "[C08] no event for an address that was not involved");
    assert!(unsafe { oq::NEW_COUNT } == e.connect as u32, "[C07,C08] a connection object is created exactly when Connect is reported");
    // C10: what restarts the active timeout, and when it fires
    if let Some(d0) = deadline0 {
        let d1: Option<u64> = match rc.borrow().state { remote_client::State::Active(ref st) => Some(st.timeout_time_ms), _ => None };
        if op == 0 && (kind == 6 || kind == 7 || kind == 8) {
            assert!(d1 == Some(now + active_timeout_ms), "[C10] every data, sync or ack frame from the peer restarts the active timeout");
        } else if let Some(d) = d1 {
            assert!(d == d0, "[C10] nothing else moves the deadline");
        }
        if op == 7 {
            assert!((e.error == 1) == (now >= d0), "[C10] Timeout is reported in the step in which active_timeout_ms of silence have elapsed, and not before");
        }
    }
    // C07: a pending handshake is completed or forgotten, never rewritten (stale, duplicate or forged handshake frames)
    if let Some(p0) = pending0 {
        let p1: Option<(u32, u32, u32, u32)> = match rc.borrow().state { remote_client::State::Pending(ref st) => Some((st.local_nonce, st.remote_nonce, st.remote_max_receive_rate, st.remote_max_receive_alloc)), _ => None };
        if let Some(p) = p1 { assert!(p == p0, "[C07] no frame, timer or call rewrites the nonces or limits of a pending handshake"); }
    }
    if op == 6 { assert!(e.n == 0 && c1 == 0, "[C08] drop() ends the connection silently"); }
    match class {
        1 => {
            assert!(e.receive == 0 && e.disconnect == 0, "[C08] no Receive or Disconnect before Connect");
            assert!(e.n <= 1);
            if e.connect == 1 { assert!(c1 == 2, "[C08] Connect means established"); }
            if e.error == 1 { assert!(c1 == 0, "[C08] nothing can follow an Error"); }
            if e.n == 0 { assert!(c1 == 1 || c1 == 0); }
        }
        2 => {
            assert!(e.connect == 0, "[C08] no second Connect on an established connection");
            assert!(e.disconnect + e.error <= 1 && !e.receive_after_terminal, "[C08] at most one terminal event, and nothing after it");
            if e.disconnect + e.error == 1 { assert!(e.last_is_terminal && (c1 == 4 || c1 == 0), "[C08] a terminal event ends the connection"); }
            else { assert!(c1 == 2 || c1 == 3 || (op == 6 && c1 == 0), "[C08] without a terminal event the connection stays established or closing"); }
        }
        3 => {
            assert!(e.connect == 0 && e.receive == 0, "[C08] no Connect/Receive while closing");
            assert!(e.n <= 1);
            if e.n == 1 { assert!(c1 == 4 || c1 == 0, "[C08] a terminal event ends the connection"); } else { assert!(c1 == 3 || (op == 6 && c1 == 0)); }
        }
        _ => {
            assert!(e.n == 0, "[C08] nothing is reported after the terminal event");
            assert!(c1 == 4 || c1 == 0);
        }
    }
    kani::cover!(true, "the operation returns");
    std::mem::forget(rc);
    std::mem::forget(s);
}
// (a timer entry that was not fired is dropped with the harness state)

macro_rules! sg { ($name:ident, $class:expr, $op:expr, $kind:expr) => {
    #[kani::proof]
    #[kani::unwind(6)]
    #[kani::stub(crate::frame::serial::crc::compute, crate::frame::serial::verif_codec::crc_stub)]
    fn $name() { server_grammar_step_op($class, $op, $kind); }
} }
//@h props=C08,C03,C09,C10,C07 tier=quick timeout=600 role=server-event-grammar args=--no-memory-safety-checks also_quick=C07
//@fn Server::{handle_frame and the handler of this frame type}
//@bound server tracking address A in state Pending (nonces/limits any; its SYN-ACK resend timer entry: any time, any count <= 10); ONE syn frame from A with every field any, at any time < 2^40
//@assume VecMap for HashMap; opaque connection model; socket model; nonce source any; crc::compute stubbed; pointer checks off (lifecycle logic only)
sg!(o8_2_server_pending_frame_syn, 1, 0, 0);
//@h props=C08,C03,C09,C10,C07 tier=quick timeout=600 role=server-event-grammar args=--no-memory-safety-checks also_quick=C07
//@fn Server::{handle_frame and the handler of this frame type}
//@bound server tracking address A in state Pending (nonces/limits any; its SYN-ACK resend timer entry: any time, any count <= 10); ONE syn_ack frame from A with every field any, at any time < 2^40
//@assume as o8_2_server_pending_frame_syn
sg!(o8_2_server_pending_frame_syn_ack, 1, 0, 1);
//@h props=C08,C03,C09,C10,C07 tier=quick timeout=600 role=server-event-grammar args=--no-memory-safety-checks also_quick=C07
//@fn Server::{handle_frame and the handler of this frame type}
//@bound server tracking address A in state Pending (nonces/limits any; its SYN-ACK resend timer entry: any time, any count <= 10); ONE ack frame from A with every field any, at any time < 2^40
//@assume as o8_2_server_pending_frame_syn
sg!(o8_2_server_pending_frame_ack, 1, 0, 2);
//@h props=C08,C03,C09,C10,C07 tier=quick timeout=600 role=server-event-grammar args=--no-memory-safety-checks also_quick=C07
//@fn Server::{handle_frame and the handler of this frame type}
//@bound server tracking address A in state Pending (nonces/limits any; its SYN-ACK resend timer entry: any time, any count <= 10); ONE error frame from A with every field any, at any time < 2^40
//@assume as o8_2_server_pending_frame_syn
sg!(o8_2_server_pending_frame_error, 1, 0, 3);
//@h props=C08,C03,C09,C10,C07 tier=quick timeout=600 role=server-event-grammar args=--no-memory-safety-checks also_quick=C07
//@fn Server::{handle_frame and the handler of this frame type}
//@bound server tracking address A in state Pending (nonces/limits any; its SYN-ACK resend timer entry: any time, any count <= 10); ONE disconnect frame from A with every field any, at any time < 2^40
//@assume as o8_2_server_pending_frame_syn
sg!(o8_2_server_pending_frame_disconnect, 1, 0, 4);
//@h props=C08,C03,C09,C10,C07 tier=quick timeout=600 role=server-event-grammar args=--no-memory-safety-checks also_quick=C07
//@fn Server::{handle_frame and the handler of this frame type}
//@bound server tracking address A in state Pending (nonces/limits any; its SYN-ACK resend timer entry: any time, any count <= 10); ONE disconnect_ack frame from A with every field any, at any time < 2^40
//@assume as o8_2_server_pending_frame_syn
sg!(o8_2_server_pending_frame_disconnect_ack, 1, 0, 5);
//@h props=C08,C03,C09,C10,C07 tier=quick timeout=600 role=server-event-grammar args=--no-memory-safety-checks also_quick=C07
//@fn Server::{handle_frame and the handler of this frame type}
//@bound server tracking address A in state Pending (nonces/limits any; its SYN-ACK resend timer entry: any time, any count <= 10); ONE data frame from A with every field any, at any time < 2^40
//@assume as o8_2_server_pending_frame_syn
sg!(o8_2_server_pending_frame_data, 1, 0, 6);
//@h props=C08,C03,C09,C10,C07 tier=quick timeout=600 role=server-event-grammar args=--no-memory-safety-checks also_quick=C07
//@fn Server::{handle_frame and the handler of this frame type}
//@bound server tracking address A in state Pending (nonces/limits any; its SYN-ACK resend timer entry: any time, any count <= 10); ONE sync frame from A with every field any, at any time < 2^40
//@assume as o8_2_server_pending_frame_syn
sg!(o8_2_server_pending_frame_sync, 1, 0, 7);
//@h props=C08,C03,C09,C10,C07 tier=quick timeout=600 role=server-event-grammar args=--no-memory-safety-checks also_quick=C07
//@fn Server::{handle_frame and the handler of this frame type}
//@bound server tracking address A in state Pending (nonces/limits any; its SYN-ACK resend timer entry: any time, any count <= 10); ONE ackframe frame from A with every field any, at any time < 2^40
//@assume as o8_2_server_pending_frame_syn
sg!(o8_2_server_pending_frame_ackframe, 1, 0, 8);
//@h props=C08,C03,C09,C10,C07 tier=quick timeout=600 role=server-event-grammar args=--no-memory-safety-checks also_quick=C07
//@fn Server::{handle_event, handle_events, step_active_clients, drop}, RemoteClient::{send, disconnect, disconnect_now}
//@bound server tracking address A in state Pending (nonces/limits any; its SYN-ACK resend timer entry: any time, any count <= 10); ONE operation: its timer entry fires at any time at which it is due (handle_event, the body of the timer loop of handle_events)
//@assume as o8_2_server_pending_frame_syn; the timer loop of handle_events (peek, break unless due, pop, handle_event) is modelled by the obligation calling handle_event on the due entry (see o18_1_pending_timer)
sg!(o8_2_server_pending_timer_fires, 1, 1, 0);
//@h props=C08,C03,C09,C10,C07 tier=quick timeout=600 role=server-event-grammar args=--no-memory-safety-checks also_quick=C07
//@fn Server::{handle_event, handle_events, step_active_clients, drop}, RemoteClient::{send, disconnect, disconnect_now}
//@bound server tracking address A in state Pending (nonces/limits any; its SYN-ACK resend timer entry: any time, any count <= 10); ONE operation: step_active_clients at any time
//@assume as o8_2_server_pending_frame_syn; the timer loop of handle_events (peek, break unless due, pop, handle_event) is modelled by the obligation calling handle_event on the due entry (see o18_1_pending_timer)
sg!(o8_2_server_pending_step_active_clients, 1, 2, 0);
//@h props=C08,C03,C09,C10,C07 tier=quick timeout=600 role=server-event-grammar args=--no-memory-safety-checks also_quick=C07
//@fn Server::{handle_event, handle_events, step_active_clients, drop}, RemoteClient::{send, disconnect, disconnect_now}
//@bound server tracking address A in state Pending (nonces/limits any; its SYN-ACK resend timer entry: any time, any count <= 10); ONE operation: RemoteClient::disconnect()
//@assume as o8_2_server_pending_frame_syn; the timer loop of handle_events (peek, break unless due, pop, handle_event) is modelled by the obligation calling handle_event on the due entry (see o18_1_pending_timer)
sg!(o8_2_server_pending_app_disconnect, 1, 3, 0);
//@h props=C08,C03,C09,C10,C07 tier=quick timeout=600 role=server-event-grammar args=--no-memory-safety-checks also_quick=C07
//@fn Server::{handle_event, handle_events, step_active_clients, drop}, RemoteClient::{send, disconnect, disconnect_now}
//@bound server tracking address A in state Pending (nonces/limits any; its SYN-ACK resend timer entry: any time, any count <= 10); ONE operation: RemoteClient::disconnect_now()
//@assume as o8_2_server_pending_frame_syn; the timer loop of handle_events (peek, break unless due, pop, handle_event) is modelled by the obligation calling handle_event on the due entry (see o18_1_pending_timer)
sg!(o8_2_server_pending_app_disconnect_now, 1, 4, 0);
//@h props=C08,C03,C09,C10,C07 tier=quick timeout=600 role=server-event-grammar args=--no-memory-safety-checks also_quick=C07
//@fn Server::{handle_event, handle_events, step_active_clients, drop}, RemoteClient::{send, disconnect, disconnect_now}
//@bound server tracking address A in state Pending (nonces/limits any; its SYN-ACK resend timer entry: any time, any count <= 10); ONE operation: RemoteClient::send()
//@assume as o8_2_server_pending_frame_syn; the timer loop of handle_events (peek, break unless due, pop, handle_event) is modelled by the obligation calling handle_event on the due entry (see o18_1_pending_timer)
sg!(o8_2_server_pending_app_send, 1, 5, 0);
//@h props=C08,C03,C09,C10,C07 tier=quick timeout=600 role=server-event-grammar args=--no-memory-safety-checks also_quick=C07
//@fn Server::{handle_event, handle_events, step_active_clients, drop}, RemoteClient::{send, disconnect, disconnect_now}
//@bound server tracking address A in state Pending (nonces/limits any; its SYN-ACK resend timer entry: any time, any count <= 10); ONE operation: Server::drop(A)
//@assume as o8_2_server_pending_frame_syn; the timer loop of handle_events (peek, break unless due, pop, handle_event) is modelled by the obligation calling handle_event on the due entry (see o18_1_pending_timer)
sg!(o8_2_server_pending_drop, 1, 6, 0);
//@h props=C08,C03,C09,C10,C07 tier=quick timeout=600 role=server-event-grammar args=--no-memory-safety-checks also_quick=C07
//@fn Server::{handle_event, handle_events, step_active_clients, drop}, RemoteClient::{send, disconnect, disconnect_now}
//@bound server tracking address A in state Pending (nonces/limits any; its SYN-ACK resend timer entry: any time, any count <= 10); ONE operation: handle_events at any time with no timer entry due (the active-timeout scan)
//@assume as o8_2_server_pending_frame_syn; the timer loop of handle_events (peek, break unless due, pop, handle_event) is modelled by the obligation calling handle_event on the due entry (see o18_1_pending_timer)
sg!(o8_2_server_pending_timeout_scan, 1, 7, 0);
//@h props=C08,C03,C09,C10,C07 tier=quick timeout=600 role=server-event-grammar args=--no-memory-safety-checks also_quick=C07
//@fn Server::{handle_frame and the handler of this frame type}
//@bound server tracking address A in state Active (deadline any, disconnect signal any; the connection model answers anything and delivers 0..1 packets per receive()); ONE syn frame from A with every field any, at any time < 2^40
//@assume as o8_2_server_pending_frame_syn
sg!(o8_2_server_active_frame_syn, 2, 0, 0);
//@h props=C08,C03,C09,C10,C07 tier=quick timeout=600 role=server-event-grammar args=--no-memory-safety-checks
//@fn Server::{handle_frame and the handler of this frame type}
//@bound server tracking address A in state Active (deadline any, disconnect signal any; the connection model answers anything and delivers 0..1 packets per receive()); ONE syn_ack frame from A with every field any, at any time < 2^40
//@assume as o8_2_server_pending_frame_syn
sg!(o8_2_server_active_frame_syn_ack, 2, 0, 1);
//@h props=C08,C03,C09,C10,C07 tier=quick timeout=600 role=server-event-grammar args=--no-memory-safety-checks also_quick=C07
//@fn Server::{handle_frame and the handler of this frame type}
//@bound server tracking address A in state Active (deadline any, disconnect signal any; the connection model answers anything and delivers 0..1 packets per receive()); ONE ack frame from A with every field any, at any time < 2^40
//@assume as o8_2_server_pending_frame_syn
sg!(o8_2_server_active_frame_ack, 2, 0, 2);
//@h props=C08,C03,C09,C10,C07 tier=quick timeout=600 role=server-event-grammar args=--no-memory-safety-checks
//@fn Server::{handle_frame and the handler of this frame type}
//@bound server tracking address A in state Active (deadline any, disconnect signal any; the connection model answers anything and delivers 0..1 packets per receive()); ONE error frame from A with every field any, at any time < 2^40
//@assume as o8_2_server_pending_frame_syn
sg!(o8_2_server_active_frame_error, 2, 0, 3);
//@h props=C08,C03,C09,C10,C07 tier=quick timeout=600 role=server-event-grammar args=--no-memory-safety-checks
//@fn Server::{handle_frame and the handler of this frame type}
//@bound server tracking address A in state Active (deadline any, disconnect signal any; the connection model answers anything and delivers 0..1 packets per receive()); ONE disconnect frame from A with every field any, at any time < 2^40
//@assume as o8_2_server_pending_frame_syn
sg!(o8_2_server_active_frame_disconnect, 2, 0, 4);
//@h props=C08,C03,C09,C10,C07 tier=quick timeout=600 role=server-event-grammar args=--no-memory-safety-checks
//@fn Server::{handle_frame and the handler of this frame type}
//@bound server tracking address A in state Active (deadline any, disconnect signal any; the connection model answers anything and delivers 0..1 packets per receive()); ONE disconnect_ack frame from A with every field any, at any time < 2^40
//@assume as o8_2_server_pending_frame_syn
sg!(o8_2_server_active_frame_disconnect_ack, 2, 0, 5);
//@h props=C08,C03,C09,C10,C07 tier=quick timeout=600 role=server-event-grammar args=--no-memory-safety-checks also_quick=C10
//@fn Server::{handle_frame and the handler of this frame type}
//@bound server tracking address A in state Active (deadline any, disconnect signal any; the connection model answers anything and delivers 0..1 packets per receive()); ONE data frame from A with every field any, at any time < 2^40
//@assume as o8_2_server_pending_frame_syn
sg!(o8_2_server_active_frame_data, 2, 0, 6);
//@h props=C08,C03,C09,C10,C07 tier=quick timeout=600 role=server-event-grammar args=--no-memory-safety-checks also_quick=C10
//@fn Server::{handle_frame and the handler of this frame type}
//@bound server tracking address A in state Active (deadline any, disconnect signal any; the connection model answers anything and delivers 0..1 packets per receive()); ONE sync frame from A with every field any, at any time < 2^40
//@assume as o8_2_server_pending_frame_syn
sg!(o8_2_server_active_frame_sync, 2, 0, 7);
//@h props=C08,C03,C09,C10,C07 tier=quick timeout=600 role=server-event-grammar args=--no-memory-safety-checks also_quick=C10
//@fn Server::{handle_frame and the handler of this frame type}
//@bound server tracking address A in state Active (deadline any, disconnect signal any; the connection model answers anything and delivers 0..1 packets per receive()); ONE ackframe frame from A with every field any, at any time < 2^40
//@assume as o8_2_server_pending_frame_syn
sg!(o8_2_server_active_frame_ackframe, 2, 0, 8);
//@h props=C08,C03,C09,C10,C07 tier=quick timeout=600 role=server-event-grammar args=--no-memory-safety-checks
//@fn Server::{handle_event, handle_events, step_active_clients, drop}, RemoteClient::{send, disconnect, disconnect_now}
//@bound server tracking address A in state Active (deadline any, disconnect signal any; the connection model answers anything and delivers 0..1 packets per receive()); ONE operation: step_active_clients at any time
//@assume as o8_2_server_pending_frame_syn; the timer loop of handle_events (peek, break unless due, pop, handle_event) is modelled by the obligation calling handle_event on the due entry (see o18_1_pending_timer)
sg!(o8_2_server_active_step_active_clients, 2, 2, 0);
//@h props=C08,C03,C09,C10,C07 tier=quick timeout=600 role=server-event-grammar args=--no-memory-safety-checks
//@fn Server::{handle_event, handle_events, step_active_clients, drop}, RemoteClient::{send, disconnect, disconnect_now}
//@bound server tracking address A in state Active (deadline any, disconnect signal any; the connection model answers anything and delivers 0..1 packets per receive()); ONE operation: RemoteClient::disconnect()
//@assume as o8_2_server_pending_frame_syn; the timer loop of handle_events (peek, break unless due, pop, handle_event) is modelled by the obligation calling handle_event on the due entry (see o18_1_pending_timer)
sg!(o8_2_server_active_app_disconnect, 2, 3, 0);
//@h props=C08,C03,C09,C10,C07 tier=quick timeout=600 role=server-event-grammar args=--no-memory-safety-checks
//@fn Server::{handle_event, handle_events, step_active_clients, drop}, RemoteClient::{send, disconnect, disconnect_now}
//@bound server tracking address A in state Active (deadline any, disconnect signal any; the connection model answers anything and delivers 0..1 packets per receive()); ONE operation: RemoteClient::disconnect_now()
//@assume as o8_2_server_pending_frame_syn; the timer loop of handle_events (peek, break unless due, pop, handle_event) is modelled by the obligation calling handle_event on the due entry (see o18_1_pending_timer)
sg!(o8_2_server_active_app_disconnect_now, 2, 4, 0);
//@h props=C08,C03,C09,C10,C07 tier=quick timeout=600 role=server-event-grammar args=--no-memory-safety-checks
//@fn Server::{handle_event, handle_events, step_active_clients, drop}, RemoteClient::{send, disconnect, disconnect_now}
//@bound server tracking address A in state Active (deadline any, disconnect signal any; the connection model answers anything and delivers 0..1 packets per receive()); ONE operation: RemoteClient::send()
//@assume as o8_2_server_pending_frame_syn; the timer loop of handle_events (peek, break unless due, pop, handle_event) is modelled by the obligation calling handle_event on the due entry (see o18_1_pending_timer)
sg!(o8_2_server_active_app_send, 2, 5, 0);
//@h props=C08,C03,C09,C10,C07 tier=quick timeout=600 role=server-event-grammar args=--no-memory-safety-checks
//@fn Server::{handle_event, handle_events, step_active_clients, drop}, RemoteClient::{send, disconnect, disconnect_now}
//@bound server tracking address A in state Active (deadline any, disconnect signal any; the connection model answers anything and delivers 0..1 packets per receive()); ONE operation: Server::drop(A)
//@assume as o8_2_server_pending_frame_syn; the timer loop of handle_events (peek, break unless due, pop, handle_event) is modelled by the obligation calling handle_event on the due entry (see o18_1_pending_timer)
sg!(o8_2_server_active_drop, 2, 6, 0);
//@h props=C08,C03,C09,C10,C07 tier=quick timeout=600 role=server-event-grammar args=--no-memory-safety-checks also_quick=C10
//@fn Server::{handle_event, handle_events, step_active_clients, drop}, RemoteClient::{send, disconnect, disconnect_now}
//@bound server tracking address A in state Active (deadline any, disconnect signal any; the connection model answers anything and delivers 0..1 packets per receive()); ONE operation: handle_events at any time with no timer entry due (the active-timeout scan)
//@assume as o8_2_server_pending_frame_syn; the timer loop of handle_events (peek, break unless due, pop, handle_event) is modelled by the obligation calling handle_event on the due entry (see o18_1_pending_timer)
sg!(o8_2_server_active_timeout_scan, 2, 7, 0);
//@h props=C08,C03,C09,C10,C07 tier=quick timeout=600 role=server-event-grammar args=--no-memory-safety-checks also_quick=C07
//@fn Server::{handle_frame and the handler of this frame type}
//@bound server tracking address A in state Closing (its Disconnect resend timer entry: any time, any count <= 10); ONE syn frame from A with every field any, at any time < 2^40
//@assume as o8_2_server_pending_frame_syn
sg!(o8_2_server_closing_frame_syn, 3, 0, 0);
//@h props=C08,C03,C09,C10,C07 tier=quick timeout=600 role=server-event-grammar args=--no-memory-safety-checks
//@fn Server::{handle_frame and the handler of this frame type}
//@bound server tracking address A in state Closing (its Disconnect resend timer entry: any time, any count <= 10); ONE syn_ack frame from A with every field any, at any time < 2^40
//@assume as o8_2_server_pending_frame_syn
sg!(o8_2_server_closing_frame_syn_ack, 3, 0, 1);
//@h props=C08,C03,C09,C10,C07 tier=quick timeout=600 role=server-event-grammar args=--no-memory-safety-checks
//@fn Server::{handle_frame and the handler of this frame type}
//@bound server tracking address A in state Closing (its Disconnect resend timer entry: any time, any count <= 10); ONE ack frame from A with every field any, at any time < 2^40
//@assume as o8_2_server_pending_frame_syn
sg!(o8_2_server_closing_frame_ack, 3, 0, 2);
//@h props=C08,C03,C09,C10,C07 tier=quick timeout=600 role=server-event-grammar args=--no-memory-safety-checks
//@fn Server::{handle_frame and the handler of this frame type}
//@bound server tracking address A in state Closing (its Disconnect resend timer entry: any time, any count <= 10); ONE error frame from A with every field any, at any time < 2^40
//@assume as o8_2_server_pending_frame_syn
sg!(o8_2_server_closing_frame_error, 3, 0, 3);
//@h props=C08,C03,C09,C10,C07 tier=quick timeout=600 role=server-event-grammar args=--no-memory-safety-checks
//@fn Server::{handle_frame and the handler of this frame type}
//@bound server tracking address A in state Closing (its Disconnect resend timer entry: any time, any count <= 10); ONE disconnect frame from A with every field any, at any time < 2^40
//@assume as o8_2_server_pending_frame_syn
sg!(o8_2_server_closing_frame_disconnect, 3, 0, 4);
//@h props=C08,C03,C09,C10,C07 tier=quick timeout=600 role=server-event-grammar args=--no-memory-safety-checks
//@fn Server::{handle_frame and the handler of this frame type}
//@bound server tracking address A in state Closing (its Disconnect resend timer entry: any time, any count <= 10); ONE disconnect_ack frame from A with every field any, at any time < 2^40
//@assume as o8_2_server_pending_frame_syn
sg!(o8_2_server_closing_frame_disconnect_ack, 3, 0, 5);
//@h props=C08,C03,C09,C10,C07 tier=quick timeout=600 role=server-event-grammar args=--no-memory-safety-checks
//@fn Server::{handle_frame and the handler of this frame type}
//@bound server tracking address A in state Closing (its Disconnect resend timer entry: any time, any count <= 10); ONE data frame from A with every field any, at any time < 2^40
//@assume as o8_2_server_pending_frame_syn
sg!(o8_2_server_closing_frame_data, 3, 0, 6);
//@h props=C08,C03,C09,C10,C07 tier=quick timeout=600 role=server-event-grammar args=--no-memory-safety-checks
//@fn Server::{handle_frame and the handler of this frame type}
//@bound server tracking address A in state Closing (its Disconnect resend timer entry: any time, any count <= 10); ONE sync frame from A with every field any, at any time < 2^40
//@assume as o8_2_server_pending_frame_syn
sg!(o8_2_server_closing_frame_sync, 3, 0, 7);
//@h props=C08,C03,C09,C10,C07 tier=quick timeout=600 role=server-event-grammar args=--no-memory-safety-checks
//@fn Server::{handle_frame and the handler of this frame type}
//@bound server tracking address A in state Closing (its Disconnect resend timer entry: any time, any count <= 10); ONE ackframe frame from A with every field any, at any time < 2^40
//@assume as o8_2_server_pending_frame_syn
sg!(o8_2_server_closing_frame_ackframe, 3, 0, 8);
//@h props=C08,C03,C09,C10,C07 tier=quick timeout=600 role=server-event-grammar args=--no-memory-safety-checks
//@fn Server::{handle_event, handle_events, step_active_clients, drop}, RemoteClient::{send, disconnect, disconnect_now}
//@bound server tracking address A in state Closing (its Disconnect resend timer entry: any time, any count <= 10); ONE operation: its timer entry fires at any time at which it is due (handle_event, the body of the timer loop of handle_events)
//@assume as o8_2_server_pending_frame_syn; the timer loop of handle_events (peek, break unless due, pop, handle_event) is modelled by the obligation calling handle_event on the due entry (see o18_1_pending_timer)
sg!(o8_2_server_closing_timer_fires, 3, 1, 0);
//@h props=C08,C03,C09,C10,C07 tier=quick timeout=600 role=server-event-grammar args=--no-memory-safety-checks
//@fn Server::{handle_event, handle_events, step_active_clients, drop}, RemoteClient::{send, disconnect, disconnect_now}
//@bound server tracking address A in state Closing (its Disconnect resend timer entry: any time, any count <= 10); ONE operation: step_active_clients at any time
//@assume as o8_2_server_pending_frame_syn; the timer loop of handle_events (peek, break unless due, pop, handle_event) is modelled by the obligation calling handle_event on the due entry (see o18_1_pending_timer)
sg!(o8_2_server_closing_step_active_clients, 3, 2, 0);
//@h props=C08,C03,C09,C10,C07 tier=quick timeout=600 role=server-event-grammar args=--no-memory-safety-checks
//@fn Server::{handle_event, handle_events, step_active_clients, drop}, RemoteClient::{send, disconnect, disconnect_now}
//@bound server tracking address A in state Closing (its Disconnect resend timer entry: any time, any count <= 10); ONE operation: RemoteClient::disconnect()
//@assume as o8_2_server_pending_frame_syn; the timer loop of handle_events (peek, break unless due, pop, handle_event) is modelled by the obligation calling handle_event on the due entry (see o18_1_pending_timer)
sg!(o8_2_server_closing_app_disconnect, 3, 3, 0);
//@h props=C08,C03,C09,C10,C07 tier=quick timeout=600 role=server-event-grammar args=--no-memory-safety-checks
//@fn Server::{handle_event, handle_events, step_active_clients, drop}, RemoteClient::{send, disconnect, disconnect_now}
//@bound server tracking address A in state Closing (its Disconnect resend timer entry: any time, any count <= 10); ONE operation: RemoteClient::disconnect_now()
//@assume as o8_2_server_pending_frame_syn; the timer loop of handle_events (peek, break unless due, pop, handle_event) is modelled by the obligation calling handle_event on the due entry (see o18_1_pending_timer)
sg!(o8_2_server_closing_app_disconnect_now, 3, 4, 0);
//@h props=C08,C03,C09,C10,C07 tier=quick timeout=600 role=server-event-grammar args=--no-memory-safety-checks
//@fn Server::{handle_event, handle_events, step_active_clients, drop}, RemoteClient::{send, disconnect, disconnect_now}
//@bound server tracking address A in state Closing (its Disconnect resend timer entry: any time, any count <= 10); ONE operation: RemoteClient::send()
//@assume as o8_2_server_pending_frame_syn; the timer loop of handle_events (peek, break unless due, pop, handle_event) is modelled by the obligation calling handle_event on the due entry (see o18_1_pending_timer)
sg!(o8_2_server_closing_app_send, 3, 5, 0);
//@h props=C08,C03,C09,C10,C07 tier=quick timeout=600 role=server-event-grammar args=--no-memory-safety-checks
//@fn Server::{handle_event, handle_events, step_active_clients, drop}, RemoteClient::{send, disconnect, disconnect_now}
//@bound server tracking address A in state Closing (its Disconnect resend timer entry: any time, any count <= 10); ONE operation: Server::drop(A)
//@assume as o8_2_server_pending_frame_syn; the timer loop of handle_events (peek, break unless due, pop, handle_event) is modelled by the obligation calling handle_event on the due entry (see o18_1_pending_timer)
sg!(o8_2_server_closing_drop, 3, 6, 0);
//@h props=C08,C03,C09,C10,C07 tier=quick timeout=600 role=server-event-grammar args=--no-memory-safety-checks
//@fn Server::{handle_event, handle_events, step_active_clients, drop}, RemoteClient::{send, disconnect, disconnect_now}
//@bound server tracking address A in state Closing (its Disconnect resend timer entry: any time, any count <= 10); ONE operation: handle_events at any time with no timer entry due (the active-timeout scan)
//@assume as o8_2_server_pending_frame_syn; the timer loop of handle_events (peek, break unless due, pop, handle_event) is modelled by the obligation calling handle_event on the due entry (see o18_1_pending_timer)
sg!(o8_2_server_closing_timeout_scan, 3, 7, 0);
//@h props=C08,C03,C09,C10,C07 tier=quick timeout=600 role=server-event-grammar args=--no-memory-safety-checks also_quick=C07
//@fn Server::{handle_frame and the handler of this frame type}
//@bound server tracking address A in state Closed (its forget timer entry: any time); ONE syn frame from A with every field any, at any time < 2^40
//@assume as o8_2_server_pending_frame_syn
sg!(o8_2_server_closed_frame_syn, 4, 0, 0);
//@h props=C08,C03,C09,C10,C07 tier=quick timeout=600 role=server-event-grammar args=--no-memory-safety-checks
//@fn Server::{handle_frame and the handler of this frame type}
//@bound server tracking address A in state Closed (its forget timer entry: any time); ONE syn_ack frame from A with every field any, at any time < 2^40
//@assume as o8_2_server_pending_frame_syn
sg!(o8_2_server_closed_frame_syn_ack, 4, 0, 1);
//@h props=C08,C03,C09,C10,C07 tier=quick timeout=600 role=server-event-grammar args=--no-memory-safety-checks
//@fn Server::{handle_frame and the handler of this frame type}
//@bound server tracking address A in state Closed (its forget timer entry: any time); ONE ack frame from A with every field any, at any time < 2^40
//@assume as o8_2_server_pending_frame_syn
sg!(o8_2_server_closed_frame_ack, 4, 0, 2);
//@h props=C08,C03,C09,C10,C07 tier=quick timeout=600 role=server-event-grammar args=--no-memory-safety-checks
//@fn Server::{handle_frame and the handler of this frame type}
//@bound server tracking address A in state Closed (its forget timer entry: any time); ONE error frame from A with every field any, at any time < 2^40
//@assume as o8_2_server_pending_frame_syn
sg!(o8_2_server_closed_frame_error, 4, 0, 3);
//@h props=C08,C03,C09,C10,C07 tier=quick timeout=600 role=server-event-grammar args=--no-memory-safety-checks
//@fn Server::{handle_frame and the handler of this frame type}
//@bound server tracking address A in state Closed (its forget timer entry: any time); ONE disconnect frame from A with every field any, at any time < 2^40
//@assume as o8_2_server_pending_frame_syn
sg!(o8_2_server_closed_frame_disconnect, 4, 0, 4);
//@h props=C08,C03,C09,C10,C07 tier=quick timeout=600 role=server-event-grammar args=--no-memory-safety-checks
//@fn Server::{handle_frame and the handler of this frame type}
//@bound server tracking address A in state Closed (its forget timer entry: any time); ONE disconnect_ack frame from A with every field any, at any time < 2^40
//@assume as o8_2_server_pending_frame_syn
sg!(o8_2_server_closed_frame_disconnect_ack, 4, 0, 5);
//@h props=C08,C03,C09,C10,C07 tier=quick timeout=600 role=server-event-grammar args=--no-memory-safety-checks
//@fn Server::{handle_frame and the handler of this frame type}
//@bound server tracking address A in state Closed (its forget timer entry: any time); ONE data frame from A with every field any, at any time < 2^40
//@assume as o8_2_server_pending_frame_syn
sg!(o8_2_server_closed_frame_data, 4, 0, 6);
//@h props=C08,C03,C09,C10,C07 tier=quick timeout=600 role=server-event-grammar args=--no-memory-safety-checks
//@fn Server::{handle_frame and the handler of this frame type}
//@bound server tracking address A in state Closed (its forget timer entry: any time); ONE sync frame from A with every field any, at any time < 2^40
//@assume as o8_2_server_pending_frame_syn
sg!(o8_2_server_closed_frame_sync, 4, 0, 7);
//@h props=C08,C03,C09,C10,C07 tier=quick timeout=600 role=server-event-grammar args=--no-memory-safety-checks
//@fn Server::{handle_frame and the handler of this frame type}
//@bound server tracking address A in state Closed (its forget timer entry: any time); ONE ackframe frame from A with every field any, at any time < 2^40
//@assume as o8_2_server_pending_frame_syn
sg!(o8_2_server_closed_frame_ackframe, 4, 0, 8);
//@h props=C08,C03,C09,C10,C07 tier=quick timeout=600 role=server-event-grammar args=--no-memory-safety-checks
//@fn Server::{handle_event, handle_events, step_active_clients, drop}, RemoteClient::{send, disconnect, disconnect_now}
//@bound server tracking address A in state Closed (its forget timer entry: any time); ONE operation: its timer entry fires at any time at which it is due (handle_event, the body of the timer loop of handle_events)
//@assume as o8_2_server_pending_frame_syn; the timer loop of handle_events (peek, break unless due, pop, handle_event) is modelled by the obligation calling handle_event on the due entry (see o18_1_pending_timer)
sg!(o8_2_server_closed_timer_fires, 4, 1, 0);
//@h props=C08,C03,C09,C10,C07 tier=quick timeout=600 role=server-event-grammar args=--no-memory-safety-checks
//@fn Server::{handle_event, handle_events, step_active_clients, drop}, RemoteClient::{send, disconnect, disconnect_now}
//@bound server tracking address A in state Closed (its forget timer entry: any time); ONE operation: step_active_clients at any time
//@assume as o8_2_server_pending_frame_syn; the timer loop of handle_events (peek, break unless due, pop, handle_event) is modelled by the obligation calling handle_event on the due entry (see o18_1_pending_timer)
sg!(o8_2_server_closed_step_active_clients, 4, 2, 0);
//@h props=C08,C03,C09,C10,C07 tier=quick timeout=600 role=server-event-grammar args=--no-memory-safety-checks
//@fn Server::{handle_event, handle_events, step_active_clients, drop}, RemoteClient::{send, disconnect, disconnect_now}
//@bound server tracking address A in state Closed (its forget timer entry: any time); ONE operation: RemoteClient::disconnect()
//@assume as o8_2_server_pending_frame_syn; the timer loop of handle_events (peek, break unless due, pop, handle_event) is modelled by the obligation calling handle_event on the due entry (see o18_1_pending_timer)
sg!(o8_2_server_closed_app_disconnect, 4, 3, 0);
//@h props=C08,C03,C09,C10,C07 tier=quick timeout=600 role=server-event-grammar args=--no-memory-safety-checks
//@fn Server::{handle_event, handle_events, step_active_clients, drop}, RemoteClient::{send, disconnect, disconnect_now}
//@bound server tracking address A in state Closed (its forget timer entry: any time); ONE operation: RemoteClient::disconnect_now()
//@assume as o8_2_server_pending_frame_syn; the timer loop of handle_events (peek, break unless due, pop, handle_event) is modelled by the obligation calling handle_event on the due entry (see o18_1_pending_timer)
sg!(o8_2_server_closed_app_disconnect_now, 4, 4, 0);
//@h props=C08,C03,C09,C10,C07 tier=quick timeout=600 role=server-event-grammar args=--no-memory-safety-checks
//@fn Server::{handle_event, handle_events, step_active_clients, drop}, RemoteClient::{send, disconnect, disconnect_now}
//@bound server tracking address A in state Closed (its forget timer entry: any time); ONE operation: RemoteClient::send()
//@assume as o8_2_server_pending_frame_syn; the timer loop of handle_events (peek, break unless due, pop, handle_event) is modelled by the obligation calling handle_event on the due entry (see o18_1_pending_timer)
sg!(o8_2_server_closed_app_send, 4, 5, 0);
//@h props=C08,C03,C09,C10,C07 tier=quick timeout=600 role=server-event-grammar args=--no-memory-safety-checks
//@fn Server::{handle_event, handle_events, step_active_clients, drop}, RemoteClient::{send, disconnect, disconnect_now}
//@bound server tracking address A in state Closed (its forget timer entry: any time); ONE operation: Server::drop(A)
//@assume as o8_2_server_pending_frame_syn; the timer loop of handle_events (peek, break unless due, pop, handle_event) is modelled by the obligation calling handle_event on the due entry (see o18_1_pending_timer)
sg!(o8_2_server_closed_drop, 4, 6, 0);
//@h props=C08,C03,C09,C10,C07 tier=quick timeout=600 role=server-event-grammar args=--no-memory-safety-checks
//@fn Server::{handle_event, handle_events, step_active_clients, drop}, RemoteClient::{send, disconnect, disconnect_now}
//@bound server tracking address A in state Closed (its forget timer entry: any time); ONE operation: handle_events at any time with no timer entry due (the active-timeout scan)
//@assume as o8_2_server_pending_frame_syn; the timer loop of handle_events (peek, break unless due, pop, handle_event) is modelled by the obligation calling handle_event on the due entry (see o18_1_pending_timer)
sg!(o8_2_server_closed_timeout_scan, 4, 7, 0);

//@h props=C08,C03,C09,C10,C07 tier=quick timeout=600 role=server-event-grammar args=--no-memory-safety-checks
//@fn Server::{handle_frame, handle_disconnect}
//@bound as o8_2_server_active_frame_disconnect, with the connection model delivering one packet in receive()
//@assume as o8_2_server_pending_frame_syn
sg!(o8_2_server_active_frame_disconnect_delivering, 2, 0, 16 + 4);
//@h props=C08,C03,C09,C10,C07 tier=quick timeout=600 role=server-event-grammar args=--no-memory-safety-checks
//@fn Server::step_active_clients
//@bound as o8_2_server_active_step_active_clients, with the connection model delivering one packet in receive()
//@assume as o8_2_server_pending_frame_syn
sg!(o8_2_server_active_step_active_clients_delivering, 2, 2, 16);
//@h props=C08,C03,C10 tier=quick timeout=600 role=server-event-grammar args=--no-memory-safety-checks also_quick=C10
//@fn Server::handle_events
//@bound as o8_2_server_active_timeout_scan, with the connection model delivering one packet in receive()
//@assume as o8_2_server_pending_frame_syn
sg!(o8_2_server_active_timeout_scan_delivering, 2, 7, 16);

// (A real-step obligation for the server, like o10_4_client_step_reads_waiting_frames_before_timers, was tried and withdrawn: after
// `active_clients.retain(..)` the scan of step_active_clients needs 26 GB in CBMC even for fully concrete inputs; DESIGN.md 10.8.)

// ---- C17: a handshake that times out gives its slot back, whatever enable_handshake_errors says ---------
//@h props=C17,C10,C18 tier=quick timeout=1500 role=server-limits-handshake-timeout args=--no-memory-safety-checks
//@fn Server::{handle_frame, handle_handshake_syn, handle_event}
//@bound limits (1,1), enable_handshake_errors any; SYN from A (compatible); its resend timer entry is handed to handle_event with no resends left at any time; then a SYN from B
//@assume as o7_1_server_syn_reply; the timer loop of handle_events is modelled by the obligation popping the entry (see o18_1_pending_timer)
#[kani::proof]
#[kani::unwind(6)]
#[kani::stub(crate::frame::serial::crc::compute, crate::frame::serial::verif_codec::crc_stub)]
fn o17_1_timed_out_handshake_frees_its_slot() {
    let cfg = EndpointConfig::default();
    let mut s = mk_server(1, 1, cfg.clone());
    s.handle_frame(addr(A), frame::Frame::HandshakeSynFrame(ok_syn()), 0);
    assert!(class_of(&s, A) == 1 && s.clients.len() == 1);
    let mut ev = s.client_events.pop().unwrap();
    ev.count = 0;
    let t = any_time();
    s.handle_event(ev, t);
    assert!(class_of(&s, A) == 0 && s.clients.len() == 0, "[C17,C10] a handshake that used up its retry budget is forgotten: the slot no longer counts against max_total_connections");
    let (_, _, _, e) = count_events(&s, A);
    assert!(e == s.config.enable_handshake_errors as usize, "[C10] Error(Timeout) is reported exactly when handshake errors are enabled");
    let sent0 = s.socket.sent_n();
    s.handle_frame(addr(B), frame::Frame::HandshakeSynFrame(ok_syn()), t);
    assert!(class_of(&s, B) == 1, "[C17] a new handshake is accepted once the timed-out one is gone");
    assert!(s.socket.sent_n() == sent0 + 1 && s.socket.sent(sent0).len == 25 && s.socket.sent(sent0).head[0] == 1, "[C17] SYN-ACK, not ServerFull");
    std::mem::forget(s);
}



// ---- C17: a handshake refused at ACK time (the active limit was reached meanwhile) does not keep its slot ---------
//@h props=C17,C07 tier=quick timeout=1200 role=server-limits-ack-refusal args=--no-memory-safety-checks
//@fn Server::{handle_frame, handle_handshake_ack, handle_handshake_syn}
//@bound limits (max_total 2, max_active 1); A established and B pending (both states constructed, B's nonces any); B returns the RIGHT nonce and is refused; then B sends a new SYN
//@assume as o8_2_server_pending_frame_syn (constructed lifecycle states: the same script after handshakes run through the code exhausts CBMC's memory, DESIGN.md 10.8)
#[kani::proof]
#[kani::unwind(6)]
#[kani::stub(crate::frame::serial::crc::compute, crate::frame::serial::verif_codec::crc_stub)]
fn o17_1_refused_at_ack_time_frees_its_slot() {
    let cfg = EndpointConfig::default();
    let mut s = mk_server(2, 1, cfg);
    let ra = Rc::new(RefCell::new(remote_client::RemoteClient { address: addr(A), max_packet_size: 1000,
        state: remote_client::State::Active(remote_client::ActiveState { half_connection: oq::HalfConnection::model(), timeout_time_ms: 50_000, disconnect_signal: None }) }));
    s.clients.insert(addr(A), Rc::clone(&ra));
    s.active_clients.push(Rc::clone(&ra));
    let ln: u32 = kani::any();
    let rn: u32 = kani::any();
    let rb = Rc::new(RefCell::new(remote_client::RemoteClient { address: addr(B), max_packet_size: 1000,
        state: remote_client::State::Pending(remote_client::PendingState { local_nonce: ln, remote_nonce: rn, remote_max_receive_rate: 1_000_000, remote_max_receive_alloc: 2_000_000, reply_bytes: Box::new([1u8; 25]) }) }));
    s.clients.insert(addr(B), Rc::clone(&rb));
    let t = any_time();
    s.handle_frame(addr(B), frame::Frame::HandshakeAckFrame(frame::HandshakeAckFrame { nonce_ack: ln }), t);
    assert!(n_established(&s) == 1 && count_events(&s, B).0 == 0 && unsafe { oq::NEW_COUNT } == 0, "[C17] never more than max_active_connections established");
    assert!(s.socket.sent_n() == 1 && s.socket.sent(0).port == B && s.socket.sent(0).head[0] == 3 && be32(&s.socket.sent(0).head, 1) == rn && s.socket.sent(0).head[5] == 2, "[C17,C07] refused with ServerFull, echoing the client's nonce");
    assert!(class_of(&s, B) == 0 && s.clients.len() == 1, "[C17] a handshake refused for lack of capacity does not keep its slot");
    // (a SYN from a third address is still refused here: the active limit is reached; what matters is that B no longer counts)
    // B may try again later: its next SYN is treated as a new handshake, not ignored as a duplicate of a tracked address
    let sent1 = s.socket.sent_n();
    s.handle_frame(addr(B), frame::Frame::HandshakeSynFrame(ok_syn()), t);
    assert!(s.socket.sent_n() == sent1 + 1, "[C17] the refused address is not stuck as 'already known': its next SYN is answered (ServerFull while the limit is reached)");
    std::mem::forget(ra); std::mem::forget(rb);
    std::mem::forget(s);
}

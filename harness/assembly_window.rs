//@file parent=src/half_connection/packet_receiver/assembly_window/mod.rs
// AssemblyWindow: allocation accounting (C06) and reassembly from fragments (C04).
use super::*;

// Loop-free stand-in for AssemblyWindow::new (which always builds 4096 entries): 4 slots.
pub(crate) fn small(max_alloc_ceil: usize) -> AssemblyWindow {
    AssemblyWindow {
        window: Box::new([WindowEntry::Open, WindowEntry::Open, WindowEntry::Open, WindowEntry::Open]),
        alloc: 0,
        max_alloc: max_alloc_ceil,
    }
}

pub(crate) fn slot_alloc(w: &AssemblyWindow, i: usize) -> usize {
    match &w.window[i] {
        WindowEntry::Open => 0,
        WindowEntry::Closed(a) => *a,
        WindowEntry::Active(e) => e.alloc_size,
    }
}

pub(crate) fn alloc_of(w: &AssemblyWindow) -> usize { w.alloc }

pub(crate) fn invariant(w: &AssemblyWindow) -> bool {
    let sum = slot_alloc(w, 0) + slot_alloc(w, 1) + slot_alloc(w, 2) + slot_alloc(w, 3);
    w.alloc == sum && w.alloc <= w.max_alloc
}

fn hostile_full_datagram() -> frame::Datagram {
    // every header field any; 1448 payload bytes (valid at any fragment position)
    let d = frame::Datagram {
        sequence_id: kani::any(), channel_id: kani::any(), window_parent_lead: kani::any(), channel_parent_lead: kani::any(),
        fragment_id: kani::any(), fragment_id_last: kani::any(), data: vec![0u8; MAX_FRAGMENT_SIZE].into_boxed_slice(),
    };
    kani::assume(crate::half_connection::packet_receiver::datagram_is_valid(&d));
    d
}

fn hostile_short_datagram() -> frame::Datagram {
    // every header field any; 2 payload bytes (valid only as the last fragment)
    let d = frame::Datagram {
        sequence_id: kani::any(), channel_id: kani::any(), window_parent_lead: kani::any(), channel_parent_lead: kani::any(),
        fragment_id: kani::any(), fragment_id_last: kani::any(), data: Box::new([kani::any(), kani::any()]),
    };
    kani::assume(crate::half_connection::packet_receiver::datagram_is_valid(&d));
    d
}

fn check_after_add(w: &AssemblyWindow, before: usize, r: &Option<Packet>) {
    assert!(invariant(w), "[C06] receive allocation = sum over slots and never above max_receive_alloc rounded up to a fragment");
    if let Some(p) = r {
        if let Some(ref data) = p.data {
            assert!(data.len() <= w.max_alloc, "[C06] a delivered buffer is within the limit");
        } else {
            assert!(w.alloc == before, "[C06] a packet over the limit allocates nothing");
        }
    }
}

//@h props=C06,C03 tier=quick timeout=900 role=assembly-alloc
//@fn AssemblyWindow::{try_add, clear}, packet_alloc_size, FragmentBuffer::{new, write}
//@bound 4 slots; limit = 2 fragments (2896 bytes); script: two try_add (slots any) of datagrams whose EVERY header field is any valid value (claimed fragment counts up to 65536) carrying 1448 resp. 2 payload bytes, then clear(any slot)
#[kani::proof]
#[kani::unwind(5)]
fn o6_1_assembly_alloc_invariant() {
    let mut w = small(2 * MAX_FRAGMENT_SIZE);
    let i0: usize = kani::any();
    let i1: usize = kani::any();
    kani::assume(i0 < 4 && i1 < 4);
    let before = w.alloc;
    let r0 = w.try_add(i0, hostile_full_datagram());
    check_after_add(&w, before, &r0);
    let before = w.alloc;
    let r1 = w.try_add(i1, hostile_short_datagram());
    check_after_add(&w, before, &r1);
    let c: usize = kani::any();
    kani::assume(c < 4);
    w.clear(c);
    assert!(invariant(&w) && slot_alloc(&w, c) == 0, "[C06] clearing a slot returns its allocation");
    kani::cover!(matches!(r0, Some(Packet { data: None, .. })), "first packet claims more than the limit");
    kani::cover!(matches!(r1, Some(Packet { data: None, .. })), "second packet does not fit next to the first");
    kani::cover!(matches!(w.window[i0], WindowEntry::Active(_)), "an assembly is in progress");
    std::mem::forget(r0); std::mem::forget(r1); std::mem::forget(w);
}

//@h props=C04,C06 tier=quick timeout=1500 role=assembly-reassembly args=--no-memory-safety-checks cbmc=--max-field-sensitivity-array-size+512
//@assume Kani pointer checks off in this functional obligation (the allocator-layout check of the same path is the C19 obligation)
//@fn AssemblyWindow::try_add, FragmentBuffer::{new, write, is_finished, finalize}
//@bound one slot; a 2-fragment packet (1448 + 2 bytes); arrivals: fragment 0, then a datagram for the same slot whose header DISAGREES in at least one of channel / leads / last-fragment id (fragment id 1, any payload), then the genuine fragment 1
#[kani::proof]
#[kani::unwind(5)]
fn o4_3_inconsistent_fragment_never_changes_result() {
    let mut w = small(4 * MAX_FRAGMENT_SIZE);
    let ch: u8 = kani::any();
    kani::assume(ch < 64);
    let (wl, cl): (u16, u16) = (kani::any(), kani::any());
    let mut f0 = vec![0u8; MAX_FRAGMENT_SIZE].into_boxed_slice();
    let k: usize = 1000;
    let v: u8 = kani::any();
    f0[k] = v;
    let d0 = frame::Datagram { sequence_id: 9, channel_id: ch, window_parent_lead: wl, channel_parent_lead: cl, fragment_id: 0, fragment_id_last: 1, data: f0 };
    assert!(w.try_add(1, d0).is_none());
    // forged / stale datagram with a different header
    let bad = frame::Datagram { sequence_id: 9, channel_id: kani::any(), window_parent_lead: kani::any(), channel_parent_lead: kani::any(),
                                fragment_id: 1, fragment_id_last: kani::any(), data: Box::new([kani::any(), kani::any()]) };
    // (fragment index concrete: a symbolic index would make the never-taken buffer write a symbolic-offset memcpy)
    kani::assume(bad.fragment_id <= bad.fragment_id_last);
    kani::assume(bad.channel_id != ch || bad.window_parent_lead != wl || bad.channel_parent_lead != cl || bad.fragment_id_last != 1);
    assert!(w.try_add(1, bad).is_none(), "[C04] a fragment whose header disagrees with the first one seen is ignored");
    let (x, y): (u8, u8) = (kani::any(), kani::any());
    let d1 = frame::Datagram { sequence_id: 9, channel_id: ch, window_parent_lead: wl, channel_parent_lead: cl, fragment_id: 1, fragment_id_last: 1, data: Box::new([x, y]) };
    match w.try_add(1, d1) {
        Some(p) => {
            assert!(p.channel_id == ch && p.window_parent_lead == wl && p.channel_parent_lead == cl && p.sequence_id == 9);
            let data = p.data.unwrap();
            assert!(data.len() == MAX_FRAGMENT_SIZE + 2, "[C04] length is the sum of the genuine fragments");
            assert!(data[k] == v && data[MAX_FRAGMENT_SIZE] == x && data[MAX_FRAGMENT_SIZE + 1] == y, "[C04] bytes of the genuine fragments, in place");
            std::mem::forget(data);
        }
        None => panic!("[C04] packet not produced although every fragment arrived"),
    }
    assert!(invariant(&w));
    std::mem::forget(w);
}

//@h props=C06 tier=quick timeout=600 role=alloc-size-agreement
//@fn packet_sender::alloc_size, assembly_window::packet_alloc_size, PendingPacket fragment count arithmetic
//@bound none on the length: every packet length 0..=MAX_PACKET_SIZE; the datagram is the first fragment the sender emits for that length (payload bytes zero, length symbolic <= 1448)
#[kani::proof]
#[kani::unwind(3)]
fn o6_3_sender_and_receiver_alloc_sizes_agree() {
    let len: usize = kani::any();
    kani::assume(len <= crate::MAX_PACKET_SIZE);
    // sender side (real function)
    let sender = crate::half_connection::packet_sender::verif_packet_sender::real_alloc_size(len);
    // what the sender puts into the header of fragment 0 (PendingPacket::new arithmetic)
    let nf = (len + MAX_FRAGMENT_SIZE - 1) / MAX_FRAGMENT_SIZE + (len == 0) as usize;
    assert!(nf >= 1 && nf <= 65536);
    let first_len = if nf > 1 { MAX_FRAGMENT_SIZE } else { len };
    let d = frame::Datagram { sequence_id: 0, channel_id: 0, window_parent_lead: 0, channel_parent_lead: 0,
                              fragment_id: 0, fragment_id_last: (nf - 1) as u16, data: vec![0u8; first_len].into_boxed_slice() };
    // receiver side (real function)
    let receiver = packet_alloc_size(&d);
    assert!(receiver == sender, "[C06] both ends charge the same fragment-rounded size for every packet length");
    kani::cover!(nf == 65536, "largest packet");
    kani::cover!(len == MAX_FRAGMENT_SIZE + 1, "just over one fragment");
    std::mem::forget(d);
}

// ---- C19: teardown mid-assembly leaves no allocation behind (CBMC --memory-leak-check) ----
//@h props=C19,C06 tier=quick timeout=900 role=leak-assembly cbmc=--memory-leak-check
//@fn AssemblyWindow::{try_add, clear}, FragmentBuffer::{new, write}, drop glue of AssemblyWindow / ActiveEntry / FragmentBuffer
//@bound 4-slot assembly window; fragment 0 (1448 bytes) of a two-fragment packet arrives, fragment 1 never does; a complete one-fragment packet arrives in another slot and is taken; the window is dropped mid-assembly
//@assume CBMC's memory-leak check (every allocation still live at the end of the harness is a leak)
#[kani::proof]
#[kani::unwind(5)]
fn o19_2_assembly_window_dropped_mid_assembly() {
    let mut w = small(1448 * 4);
    let d0 = frame::Datagram { sequence_id: 7, channel_id: 1, window_parent_lead: 0, channel_parent_lead: 0, fragment_id: 0, fragment_id_last: 1, data: vec![0u8; 1448].into_boxed_slice() };
    let r0 = w.try_add(0, d0);
    assert!(r0.is_none());
    let d1 = frame::Datagram { sequence_id: 8, channel_id: 1, window_parent_lead: 0, channel_parent_lead: 0, fragment_id: 0, fragment_id_last: 0, data: Box::new([1, 2, 3]) };
    let r1 = w.try_add(1, d1);
    assert!(r1.is_some());
    drop(r1);
    drop(w);
}

// (An obligation tying small() to the real AssemblyWindow::new - 4096 slots written one by one into a vector - was tried and
// withdrawn: 270-670 s of symbolic execution and then memory exhaustion, with a symbolic and with concrete limits.  The
// rounding of the limit inside new() is therefore outside the claim; DESIGN.md 10.7, seed C06e.)

//@file parent=src/frame/serial/crc.rs
// Lemmas about the real table-driven CRC step (crc::extend on one byte) that, by induction over the
// bytes of a frame, give: every error pattern of ODD weight (in particular all 1- and 3-bit
// patterns) is detected at every frame length.  See DESIGN.md C16 / O16.11.
use super::*;

fn lfsr_step(crc: u32, byte: u8) -> u32 {
    // bit-serial reference for the reflected polynomial 0x9960034C (0x132C00699)
    let mut reg = crc ^ byte as u32;
    let mut i = 0;
    while i < 8 {
        reg = if reg & 1 != 0 { (reg >> 1) ^ 0x9960034C } else { reg >> 1 };
        i += 1;
    }
    reg
}

//@h props=C16,C01 tier=quick timeout=120 role=crc-lemma
//@fn crc::extend (one table step, PARTIAL_RESULTS)
//@bound none: all 2^40 (crc, byte) pairs; one byte per call (longer inputs by induction, prose)
#[kani::proof]
#[kani::unwind(10)]
fn o16_11a_step_is_lfsr() {
    let c: u32 = kani::any();
    let b: u8 = kani::any();
    // the table folds the initial and final inversion into every step (see extend_slow in the test module)
    assert!(extend(c, &[b]) == !lfsr_step(!c, b));
}

//@h props=C16 tier=quick timeout=400 role=crc-lemma
//@fn crc::extend (one table step)
//@bound none: all (c1,c2,c3,b1,b2,b3)
#[kani::proof]
#[kani::unwind(3)]
fn o16_11b_step_is_affine() {
    let c1: u32 = kani::any();
    let c2: u32 = kani::any();
    let c3: u32 = kani::any();
    let b1: u8 = kani::any();
    let b2: u8 = kani::any();
    let b3: u8 = kani::any();
    // E(x^y^z) = E(x)^E(y)^E(z): E is affine over GF(2), so the effect of an error pattern on the
    // final CRC does not depend on the message.
    assert!(extend(c1 ^ c2 ^ c3, &[b1 ^ b2 ^ b3]) == extend(c1, &[b1]) ^ extend(c2, &[b2]) ^ extend(c3, &[b3]));
}

//@h props=C16 tier=quick timeout=600 role=crc-lemma
//@fn crc::extend (one table step)
//@bound none: all (c, dc, b, db)
#[kani::proof]
#[kani::unwind(3)]
fn o16_11c_linear_part_preserves_parity() {
    let c: u32 = kani::any();
    let dc: u32 = kani::any();
    let b: u8 = kani::any();
    let db: u8 = kani::any();
    // difference propagated by one step
    let d_out = extend(c ^ dc, &[b ^ db]) ^ extend(c, &[b]);
    // (x+1) divides the generator: the parity of (state difference + flipped input bits) is invariant
    assert!((d_out.count_ones() & 1) == ((dc.count_ones() + db.count_ones()) & 1));
    // a byte without flipped bits never cancels a non-zero state difference
    if db == 0 && dc != 0 {
        assert!(d_out != 0);
    }
    kani::cover!(dc == 0 && db != 0 && d_out != 0, "a flipped data bit creates a state difference");
}

//@h props=C16 tier=quick timeout=300 role=crc-lemma
//@fn crc::compute, crc::extend
//@bound buffers of exactly 8 bytes; all error patterns of weight 1..4 over the 64 data bits + 32 trailer bits expressed as a 12-byte mask
#[kani::proof]
#[kani::unwind(14)]
fn o16_12_le4_flips_8_bytes() {
    // By affinity (o16_11b) detection does not depend on the message: check on the zero message.
    let e: [u8; 8] = kani::any();
    let et: u32 = kani::any();
    let mut w = et.count_ones();
    let mut i = 0;
    while i < 8 { w += e[i].count_ones(); i += 1; }
    kani::assume(w >= 1 && w <= 4);
    let zero = [0u8; 8];
    // frame = data || crc(data); corrupted = (data^e) || (crc(data)^et); accepted iff crc(data^e) == crc(data)^et
    assert!(compute(&e) != compute(&zero) ^ et);
}

macro_rules! flips { ($name:ident, $n:expr) => {
    #[kani::proof]
    #[kani::unwind(34)]
    fn $name() {
        // as o16_12_le4_flips_8_bytes, for a longer buffer
        let e: [u8; $n] = kani::any();
        let et: u32 = kani::any();
        let mut w = et.count_ones();
        let mut i = 0;
        while i < $n { w += e[i].count_ones(); i += 1; }
        kani::assume(w >= 1 && w <= 4);
        let zero = [0u8; $n];
        assert!(compute(&e) != compute(&zero) ^ et);
    }
} }
//@h props=C16 tier=thorough timeout=1800 role=crc-lemma
//@fn crc::compute, crc::extend
//@bound buffers of exactly 16 bytes; all error patterns of weight 1..4 over the 128 data bits + 32 trailer bits
flips!(o16_12_le4_flips_16_bytes, 16);
// (32 bytes were tried as well: no verdict within 650 s; outside the claim)

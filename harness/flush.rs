//@file parent=src/half_connection/mod.rs
// The sender's flush path: HalfConnection::emit_frames / emit_data_frames driven on a small connection, frames
// decoded from the bytes handed to the FrameSink by the real Frame::read.
//@inject src/half_connection/emit.rs :: let nonce = rand::random\(\); :: #[cfg(not(kani))]\n        let nonce = rand::random();\n        #[cfg(kani)]\n        let nonce: bool = crate::verif_env::random_bool();
use super::*;
use super::verif_half_connection::small;
use crate::frame::serial::Serialize;
use crate::SendMode;

// Records the frames handed to the sink (copies; no loops in the recorder).
pub(crate) struct Wire { pub n: usize, pub bytes: usize, pub max_len: usize, pub f0: Option<Box<[u8]>>, pub f1: Option<Box<[u8]>>, pub f2: Option<Box<[u8]>>, pub f3: Option<Box<[u8]>> }
impl Wire { pub fn new() -> Self { Wire { n: 0, bytes: 0, max_len: 0, f0: None, f1: None, f2: None, f3: None } } }
impl FrameSink for Wire {
    fn send(&mut self, f: &[u8]) {
        let b: Box<[u8]> = f.into();
        if f.len() > self.max_len { self.max_len = f.len(); }
        self.bytes += f.len();
        if self.n == 0 { self.f0 = Some(b); } else if self.n == 1 { self.f1 = Some(b); } else if self.n == 2 { self.f2 = Some(b); } else if self.n == 3 { self.f3 = Some(b); } else { std::mem::forget(b); }
        self.n += 1;
    }
}

// First datagram of a data frame, as decoded by the real reader: (frame id, nonce, #datagrams, packet id, channel, fragment id, last fragment id, length, first byte)
pub(crate) struct Seen { pub frame_id: u32, pub nonce: bool, pub count: usize, pub id: u32, pub ch: u8, pub frag: u16, pub last: u16, pub len: usize, pub b0: u8, pub wlead: u16, pub clead: u16 }
pub(crate) fn data_frame(b: &Option<Box<[u8]>>, k: usize) -> Option<Seen> {
    // frame header by position (type, id, nonce|count: the layout read_data_payload reads), datagrams by the real read_datagram
    match b {
        None => None,
        Some(bytes) => {
            if bytes.len() < 10 || bytes[0] != 10 { return None; }
            let frame_id = ((bytes[1] as u32) << 24) | ((bytes[2] as u32) << 16) | ((bytes[3] as u32) << 8) | bytes[4] as u32;
            let nonce = bytes[5] & 0x80 != 0;
            let count = (bytes[5] & 0x7F) as usize;
            if k >= count { return None; }
            let mut off = 6;
            let mut i = 0;
            while i < k {
                match crate::frame::serial::verif_codec::verif_read_datagram(&bytes[off .. bytes.len() - 4]) { Some((d, n)) => { std::mem::forget(d); off += n; } None => return None }
                i += 1;
            }
            match crate::frame::serial::verif_codec::verif_read_datagram(&bytes[off .. bytes.len() - 4]) {
                Some((d, _)) => {
                    let r = Seen { frame_id, nonce, count, id: d.sequence_id, ch: d.channel_id, frag: d.fragment_id, last: d.fragment_id_last,
                                   len: d.data.len(), b0: if d.data.len() > 0 { d.data[0] } else { 0 }, wlead: d.window_parent_lead, clead: d.channel_parent_lead };
                    std::mem::forget(d);
                    Some(r)
                }
                None => None,
            }
        }
    }
}
pub(crate) fn is_data(b: &Option<Box<[u8]>>) -> bool { match b { Some(x) => x.len() > 0 && x[0] == 10, None => false } }

// alloc::rc::is_dangling decides "this Weak was created by Weak::new()" by casting the pointer to an integer, which
// CBMC's symbolic execution cannot evaluate: every Weak::upgrade then forks on an infeasible branch that pops queue
// entries, and the merged state loses all constants.  uflow never creates a Weak with Weak::new(): every FragmentRef
// comes from Rc::downgrade, so the answer is always false.
pub(crate) fn not_dangling<T: ?Sized>(_ptr: *const T) -> bool { false }

const TXP: u32 = 0xFFFFF;       // tx packet base: the first packet has the last id before the 2^20 wrap
const TXF: u32 = 0xFFFF_FFFF;   // tx frame base: the first frame has the last id before the 2^32 wrap

fn resend_mode(m: SendMode) -> bool { m == SendMode::Persistent || m == SendMode::Reliable }

const AMPLE: isize = 100_000;

struct Env { rtt: u64, rto: u64 }
fn any_env() -> Env {
    unsafe { crate::frame::serial::verif_codec::CRC_STUB_VALUE = kani::any(); }
    let rtt: u64 = kani::any();
    let rto: u64 = kani::any();
    kani::assume(rtt >= 1 && rtt <= 60_000 && rto <= 240_000);
    Env { rtt, rto }
}
fn any_time_from(t: u64) -> u64 { let x: u64 = kani::any(); kani::assume(x >= t && x < 1 << 40); x }

fn check_first_frame(w: &Wire, b: u8, ch: u8) -> Seen {
    let s = data_frame(&w.f0, 0).unwrap();
    assert!(s.frame_id == TXF && s.count == 1 && s.id == TXP && s.ch == ch && s.frag == 0 && s.last == 0 && s.len == 1 && s.b0 == b, "[C05,C01,C04] the datagram on the wire is the submitted packet");
    s
}

// ---------------------------------------------------------------------------------------------------------------
// OF1: one 1-byte packet of a given mode, two flushes at any times t0 <= t1 (ample credit).
fn two_flushes(mode: SendMode) {
    let e = any_env();
    let mut hc = small(TXP, 0, TXF, 0, None);
    let b: u8 = kani::any();
    hc.send(Box::new([b]), 33, mode);
    let t0 = any_time_from(0);
    let t1 = any_time_from(t0);
    hc.sync_timeout_base_ms = t0;
    hc.flush_alloc = AMPLE;
    let mut w = Wire::new();
    hc.emit_frames(t0, e.rtt, e.rto, 0, &mut w);
    assert!(w.n == 1, "[C05,C02] a queued packet is transmitted by the first flush that has credit");
    let s = check_first_frame(&w, b, 33);
    assert!(s.nonce == unsafe { crate::verif_env::RANDOM_BOOL_LAST }, "[C15] the nonce on the wire is the random value drawn for this frame");
    assert!(hc.frame_queue.verif_nonce_of(TXF) == Some(s.nonce), "[C15] ... and it is the nonce logged for the frame");
    assert!(hc.flush_alloc == AMPLE - w.bytes as isize, "[C13] every byte handed to the sink is debited");
    assert!(hc.is_send_pending() == resend_mode(mode), "[C09,C02] an unacknowledged Persistent/Reliable fragment counts as pending; nothing else is left");
    assert!(hc.send_buffer_size() == 1, "[C20] the packet stays counted until the peer's window passes it");
    // the application steps (flush id advances), time passes, second flush
    hc.flush_alloc = AMPLE;
    let n0 = w.n;
    hc.emit_frames(t1, e.rtt, e.rto, 1, &mut w);
    let again = is_data(&w.f1);
    if !resend_mode(mode) {
        assert!(!again, "[C12] a fragment of an Unreliable or TimeSensitive packet is transmitted at most once");
        assert!(!hc.is_send_pending());
    } else {
        if t1 - t0 >= 4 * e.rtt {
            assert!(again, "[C12,C02] an unacknowledged Persistent/Reliable fragment is retransmitted (no later than 4 RTT after the last transmission when credit and window allow)");
        }
        if again {
            let s2 = data_frame(&w.f1, 0).unwrap();
            assert!(s2.frame_id == 0 && s2.count == 1 && s2.id == TXP && s2.ch == 33 && s2.frag == 0 && s2.last == 0 && s2.len == 1 && s2.b0 == b, "[C01,C04] a retransmission carries the same datagram in a new frame");
        }
        assert!(hc.is_send_pending(), "[C09] still pending while unacknowledged");
    }
    kani::cover!(again || !resend_mode(mode), "retransmitted");
    kani::cover!(!again, "not retransmitted (not yet due / not a resend mode)");
    assert!(w.n <= 3 && w.max_len <= crate::MAX_FRAME_SIZE, "[C04]");
    kani::cover!(w.n > n0 && !again, "second flush sent only a sync frame");
    std::mem::forget(w); std::mem::forget(hc);
}

macro_rules! of1 { ($name:ident, $mode:expr) => {
    #[kani::proof]
    #[kani::unwind(4)]
    #[kani::stub(crate::frame::serial::crc::compute, crate::frame::serial::verif_codec::crc_stub)]
    #[kani::stub(alloc::rc::is_dangling, not_dangling)]
    fn $name() { two_flushes($mode); }
} }

//@h props=C12,C02,C05,C09,C13,C15,C20 tier=quick timeout=900 role=flush-two-flushes cbmc=--max-field-sensitivity-array-size+512
//@fn HalfConnection::{send, emit_frames, emit_ack_frames, emit_data_frames, emit_sync_frame, is_send_pending, send_buffer_size}, PacketSender::{enqueue_packet, emit_packet}, DataFrameEmitter::{new, push, finalize}, DataFrameBuilder::{new, add, build}, FrameQueue::push, read_datagram
//@bound small connection (4-slot windows; first packet id 2^20-1, first frame id 2^32-1); ONE 1-byte Reliable packet on channel 33; two flushes at ANY times t0 <= t1 < 2^40 with ample (concrete) credit; rtt any in 1..60000 ms, rto any <= 240 s; payload byte, nonce, CRC value any
//@assume crc::compute stubbed (uninterpreted constant)
//@assume rand::random() in DataFrameEmitter::push replaced by any bool
//@assume step() is modelled by setting flush_alloc and passing the next flush id (Instant::now is a foreign call)
//@assume alloc::rc::is_dangling stubbed to false (uflow creates every Weak by Rc::downgrade, never by Weak::new)
of1!(of1_two_flushes_reliable, SendMode::Reliable);

//@h props=C12,C02,C05,C09,C20 tier=thorough timeout=900 role=flush-two-flushes cbmc=--max-field-sensitivity-array-size+512
//@fn HalfConnection::{send, emit_frames, emit_data_frames, is_send_pending, send_buffer_size}, PacketSender::{enqueue_packet, emit_packet}, DataFrameEmitter::{push, finalize}, FrameQueue::push
//@bound as of1_two_flushes_reliable with a Persistent packet
//@assume as of1_two_flushes_reliable
of1!(of1_two_flushes_persistent, SendMode::Persistent);

//@h props=C12,C05,C09,C20 tier=quick timeout=900 role=flush-two-flushes cbmc=--max-field-sensitivity-array-size+512
//@fn HalfConnection::{send, emit_frames, emit_data_frames, is_send_pending, send_buffer_size}, PacketSender::{enqueue_packet, emit_packet}, DataFrameEmitter::{push, finalize}, FrameQueue::push
//@bound as of1_two_flushes_reliable with an Unreliable packet
//@assume as of1_two_flushes_reliable
of1!(of1_two_flushes_unreliable, SendMode::Unreliable);

//@h props=C12,C05,C09,C20 tier=thorough timeout=900 role=flush-two-flushes cbmc=--max-field-sensitivity-array-size+512
//@fn HalfConnection::{send, emit_frames, emit_data_frames, is_send_pending, send_buffer_size}, PacketSender::{enqueue_packet, emit_packet}, DataFrameEmitter::{push, finalize}, FrameQueue::push
//@bound as of1_two_flushes_reliable with a TimeSensitive packet submitted in the same step as the first flush
//@assume as of1_two_flushes_reliable
of1!(of1_two_flushes_time_sensitive, SendMode::TimeSensitive);

// ---------------------------------------------------------------------------------------------------------------
// OF8: a retransmission that is due while the flush has no credit must stay queued and go out later (C09/C02).
//@h props=C09,C02,C12,C13 tier=quick timeout=900 role=flush-resend-no-credit also_quick=C02 cbmc=--max-field-sensitivity-array-size+512
//@fn HalfConnection::{send, emit_frames, emit_data_frames, is_send_pending}, DataFrameEmitter::{push, finalize}, ResendQueue
//@bound small connection; ONE 1-byte Reliable packet; flush at 1000 ms (ample credit, rtt 50 ms), flush at 1300 ms (retransmission due) with NEGATIVE credit (-1), flush at 1400 ms with ample credit; payload byte and CRC value any
//@assume as of1_two_flushes_reliable
#[kani::proof]
#[kani::unwind(4)]
#[kani::stub(crate::frame::serial::crc::compute, crate::frame::serial::verif_codec::crc_stub)]
#[kani::stub(alloc::rc::is_dangling, not_dangling)]
fn of8_due_resend_without_credit_stays_queued() {
    unsafe { crate::frame::serial::verif_codec::CRC_STUB_VALUE = kani::any(); }
    // concrete times (rtt 50 ms): whether the retransmission is due must not be a symbolic branch in the middle of the script
    // (DESIGN.md 10.8); "no later than 4 RTT" for any times is decided by of1
    let e = Env { rtt: 50, rto: 200 };
    let mut hc = small(TXP, 0, TXF, 0, None);
    let b: u8 = kani::any();
    hc.send(Box::new([b]), 1, SendMode::Reliable);
    let (t0, t1, t2): (u64, u64, u64) = (1000, 1300, 1400);
    hc.sync_timeout_base_ms = t0;
    hc.flush_alloc = AMPLE;
    let mut w = Wire::new();
    hc.emit_frames(t0, e.rtt, e.rto, 0, &mut w);
    assert!(w.n == 1);
    hc.flush_alloc = -1;
    hc.emit_frames(t1, e.rtt, e.rto, 1, &mut w);
    assert!(w.n == 1 && hc.flush_alloc == -1, "[C13] nothing is transmitted on negative credit");
    assert!(hc.is_send_pending(), "[C09,C02] a due retransmission that could not be sent is still pending");
    hc.flush_alloc = AMPLE;
    hc.emit_frames(t2, e.rtt, e.rto, 2, &mut w);
    assert!(is_data(&w.f1), "[C02,C12] ... and is transmitted by the next flush that has credit");
    let s2 = data_frame(&w.f1, 0).unwrap();
    assert!(s2.id == TXP && s2.ch == 1 && s2.len == 1 && s2.b0 == b && s2.frame_id == 0);
    assert!(hc.is_send_pending());
    std::mem::forget(w); std::mem::forget(hc);
}

// ---------------------------------------------------------------------------------------------------------------
// OF2: the acknowledgement of the frame that carried a fragment stops its retransmission -- if, and only if, the
// ack group carries the right nonce (C12, C15, C02, C09).
fn ack_then_flush(mode: SendMode, nonce: bool, good: bool) {
    unsafe { crate::verif_env::RANDOM_BOOL_FIXED = Some(nonce); }
    let e = any_env();
    let mut hc = small(TXP, 0, TXF, 0, None);
    let b: u8 = kani::any();
    hc.send(Box::new([b]), 2, mode);
    let t0 = any_time_from(0);
    let t1 = any_time_from(t0);
    kani::assume(t1 - t0 >= 4 * e.rtt);
    hc.sync_timeout_base_ms = t0;
    hc.flush_alloc = AMPLE;
    let mut w = Wire::new();
    hc.emit_frames(t0, e.rtt, e.rto, 0, &mut w);
    assert!(w.n == 1);
    let s = check_first_frame(&w, b, 2);
    assert!(s.nonce == nonce);
    // the peer acknowledges frame TXF; its packet window has not moved (the packet is still undelivered there)
    let g = frame::AckGroup { base_id: TXF, bitfield: 1, nonce: if good { nonce } else { !nonce } };
    hc.handle_ack_frame(frame::AckFrame { frame_window_base_id: 0, packet_window_base_id: TXP, frame_acks: vec![g] });
    assert!(hc.send_buffer_size() == 1, "[C20] still counted: the peer's packet window has not passed it");
    hc.flush_alloc = AMPLE;
    hc.emit_frames(t1, e.rtt, e.rto, 1, &mut w);
    if good {
        assert!(!is_data(&w.f1) && !is_data(&w.f2), "[C12] a fragment is not transmitted again once its acknowledgement has been processed");
        assert!(!hc.is_send_pending(), "[C09,C02] nothing is pending once every fragment is acknowledged");
    } else {
        assert!(is_data(&w.f1), "[C15,C12] an acknowledgement with the wrong nonce changes nothing: the fragment is retransmitted");
        assert!(hc.is_send_pending());
    }
    // the peer's packet window passes the packet
    hc.handle_ack_frame(frame::AckFrame { frame_window_base_id: 0, packet_window_base_id: 0, frame_acks: Vec::new() });
    assert!(hc.send_buffer_size() == 0, "[C20,C02] zero once everything has been acknowledged");
    std::mem::forget(w); std::mem::forget(hc);
}

macro_rules! of2 { ($name:ident, $mode:expr, $nonce:expr, $good:expr) => {
    #[kani::proof]
    #[kani::unwind(4)]
    #[kani::stub(crate::frame::serial::crc::compute, crate::frame::serial::verif_codec::crc_stub)]
    #[kani::stub(alloc::rc::is_dangling, not_dangling)]
    fn $name() { ack_then_flush($mode, $nonce, $good); }
} }

//@h props=C02,C12,C15,C09,C20 tier=quick timeout=1200 role=flush-ack-stops-resend also_quick=C12 cbmc=--max-field-sensitivity-array-size+512 unwindset=FrameQueue17acknowledge_group.0:34
//@fn HalfConnection::{send, emit_frames, emit_data_frames, handle_ack_frame, is_send_pending, send_buffer_size}, FrameQueue::{acknowledge_group, advance_transfer_window}, PacketSender::acknowledge, PendingPacket::{acknowledge_fragment, fragment_acknowledged}
//@bound small connection; ONE 1-byte Reliable packet; flush at any t0; ack frame with one group (base = the frame's id, bitfield 1, CORRECT nonce; frame nonce pinned to true); flush at any t1 >= t0 + 4 rtt; then a window acknowledgement
//@assume as of1_two_flushes_reliable; the frame nonce is pinned per instance (true here, false in the wrong-nonce twin)
of2!(of2_valid_ack_stops_resend_reliable, SendMode::Reliable, true, true);

//@h props=C15,C12,C02 tier=quick timeout=1200 role=flush-ack-stops-resend cbmc=--max-field-sensitivity-array-size+512 unwindset=FrameQueue17acknowledge_group.0:34
//@fn HalfConnection::{send, emit_frames, emit_data_frames, handle_ack_frame, is_send_pending}, FrameQueue::acknowledge_group
//@bound as of2_valid_ack_stops_resend_reliable, but the ack group carries the WRONG nonce (frame nonce pinned to false)
//@assume as of2_valid_ack_stops_resend_reliable
of2!(of2_wrong_nonce_ack_does_not_stop_resend, SendMode::Reliable, false, false);

//@h props=C12,C15,C09,C20 tier=thorough timeout=1200 role=flush-ack-stops-resend cbmc=--max-field-sensitivity-array-size+512 unwindset=FrameQueue17acknowledge_group.0:34
//@fn HalfConnection::{send, emit_frames, emit_data_frames, handle_ack_frame, is_send_pending, send_buffer_size}, FrameQueue::acknowledge_group
//@bound as of2_valid_ack_stops_resend_reliable with a Persistent packet and frame nonce false
//@assume as of2_valid_ack_stops_resend_reliable
of2!(of2_valid_ack_stops_resend_persistent, SendMode::Persistent, false, true);

// ---------------------------------------------------------------------------------------------------------------
// OF3: the receiver reports having moved past a Persistent packet (its frames were lost, a later packet was
// delivered): the packet is not transmitted again and no longer counts as buffered (C12, C20).
//@h props=C12,C20,C09,C11 tier=quick timeout=1200 role=flush-window-skip cbmc=--max-field-sensitivity-array-size+512
//@fn HalfConnection::{send, emit_frames, emit_data_frames, handle_ack_frame, is_send_pending, send_buffer_size}, PacketSender::acknowledge, FrameQueue::advance_transfer_window
//@bound small connection; ONE 1-byte Persistent packet; flush at any t0; ack frame WITHOUT groups whose packet window base is the next packet id; flush at any t1 >= t0
//@assume as of1_two_flushes_reliable
#[kani::proof]
#[kani::unwind(4)]
#[kani::stub(crate::frame::serial::crc::compute, crate::frame::serial::verif_codec::crc_stub)]
#[kani::stub(alloc::rc::is_dangling, not_dangling)]
fn of3_receiver_moved_past_persistent_packet() {
    let e = any_env();
    let mut hc = small(TXP, 0, TXF, 0, None);
    hc.send(Box::new([kani::any()]), 2, SendMode::Persistent);
    let t0 = any_time_from(0);
    let t1 = any_time_from(t0);
    hc.sync_timeout_base_ms = t0;
    hc.flush_alloc = AMPLE;
    let mut w = Wire::new();
    hc.emit_frames(t0, e.rtt, e.rto, 0, &mut w);
    assert!(w.n == 1 && hc.send_buffer_size() == 1);
    hc.handle_ack_frame(frame::AckFrame { frame_window_base_id: TXF, packet_window_base_id: 0, frame_acks: Vec::new() });
    assert!(hc.send_buffer_size() == 0, "[C20] a packet the peer's window has passed is no longer counted");
    hc.flush_alloc = AMPLE;
    hc.emit_frames(t1, e.rtt, e.rto, 1, &mut w);
    assert!(!is_data(&w.f1) && !is_data(&w.f2), "[C12] a Persistent packet is not transmitted again once the receiver has reported moving past it");
    if t1 - t0 >= e.rtt { assert!(!hc.is_send_pending(), "[C09] its retransmission entry is purged when it comes due"); }
    std::mem::forget(w); std::mem::forget(hc);
}

// ---------------------------------------------------------------------------------------------------------------
// OF4 (finding F3): an acknowledgement whose packet window base is ahead of fragments that were never sent.
//@h props=C03,C12 tier=quick timeout=1200 role=flush-ack-ahead-of-unsent unwind_violation=1 cbmc=--max-field-sensitivity-array-size+512
//@fn HalfConnection::{send, emit_frames, emit_data_frames, handle_ack_frame}, DataFrameEmitter::push, PacketSender::acknowledge
//@bound small connection; ONE two-fragment (1449-byte) Unreliable packet; first flush with 100 bytes of credit (fragment 0 goes out, fragment 1 is cut by the credit); hostile ack frame whose packet window base is the next id; second flush with ample credit must RETURN: loop bound 4 = entries + 2
//@assume as of1_two_flushes_reliable; an unwinding-assertion failure in emit_data_frames is the violation (the flush does not return)
#[kani::proof]
#[kani::unwind(4)]
#[kani::stub(crate::frame::serial::crc::compute, crate::frame::serial::verif_codec::crc_stub)]
#[kani::stub(alloc::rc::is_dangling, not_dangling)]
fn of4_ack_ahead_of_unsent_fragment_returns() {
    let e = any_env();
    let mut hc = small(TXP, 0, TXF, 0, None);
    hc.send(vec![0u8; 1449].into_boxed_slice(), 0, SendMode::Unreliable);
    let t0 = any_time_from(0);
    let t1 = any_time_from(t0);
    hc.sync_timeout_base_ms = t0;
    hc.flush_alloc = 100;
    let mut w = Wire::new();
    hc.emit_frames(t0, e.rtt, e.rto, 0, &mut w);
    assert!(w.n == 1 && hc.flush_alloc < 0 && hc.is_send_pending(), "[C13,C04] the credit cut the packet after its first fragment");
    hc.handle_ack_frame(frame::AckFrame { frame_window_base_id: TXF, packet_window_base_id: 0, frame_acks: Vec::new() });
    hc.flush_alloc = AMPLE;
    hc.emit_frames(t1, e.rtt, e.rto, 1, &mut w);
    assert!(hc.send_buffer_size() == 0, "[C20] a multi-fragment packet the peer's window has passed is no longer counted, to the byte");
    assert!(!is_data(&w.f1), "[C12] nothing of a packet the receiver has moved past is transmitted");
    assert!(!hc.is_send_pending(), "[C03,C09] the dead entry is dropped");
    std::mem::forget(w); std::mem::forget(hc);
}

// ---------------------------------------------------------------------------------------------------------------
// OF5: TimeSensitive packets through the connection.
//@h props=C12,C20 tier=quick timeout=900 role=flush-time-sensitive-stale cbmc=--max-field-sensitivity-array-size+512
//@fn HalfConnection::{send, emit_frames, emit_data_frames, send_buffer_size, is_send_pending}, PacketSender::emit_packet
//@bound small connection; ONE 1-byte TimeSensitive packet submitted under flush id 2^32-1; the application steps (flush id wraps to 0) before any flush; flush with ample credit at any time
//@assume as of1_two_flushes_reliable
#[kani::proof]
#[kani::unwind(4)]
#[kani::stub(crate::frame::serial::crc::compute, crate::frame::serial::verif_codec::crc_stub)]
#[kani::stub(alloc::rc::is_dangling, not_dangling)]
fn of5_time_sensitive_not_sent_after_step() {
    let e = any_env();
    let mut hc = small(TXP, 0, TXF, 0, None);
    let f: u32 = 0xFFFF_FFFF;     // concrete (the comparison of flush ids decides a heap-modifying branch); the step wraps it to 0
    hc.flush_id = f;
    hc.send(Box::new([kani::any()]), 0, SendMode::TimeSensitive);
    let t0 = any_time_from(0);
    hc.sync_timeout_base_ms = t0;
    hc.flush_id = f.wrapping_add(1);      // step()
    hc.flush_alloc = AMPLE;
    let mut w = Wire::new();
    hc.emit_frames(t0, e.rtt, e.rto, hc.flush_id, &mut w);
    assert!(!is_data(&w.f0), "[C12] a TimeSensitive packet whose transmission had not begun by the next step() is never transmitted");
    assert!(hc.send_buffer_size() == 0 && !hc.is_send_pending(), "[C20] and no longer counts as buffered");
    std::mem::forget(w); std::mem::forget(hc);
}

//@h props=C12 tier=quick timeout=900 role=flush-time-sensitive-no-credit cbmc=--max-field-sensitivity-array-size+512
//@fn HalfConnection::{send, emit_frames, emit_data_frames}, PacketSender::emit_packet, DataFrameEmitter::push
//@bound small connection; ONE 1-byte TimeSensitive packet; a flush in the same step with NEGATIVE credit (-1); the application steps; flush with ample credit at any later time
//@assume as of1_two_flushes_reliable
#[kani::proof]
#[kani::unwind(4)]
#[kani::stub(crate::frame::serial::crc::compute, crate::frame::serial::verif_codec::crc_stub)]
#[kani::stub(alloc::rc::is_dangling, not_dangling)]
fn of5_time_sensitive_not_sent_after_creditless_flush_and_step() {
    let e = any_env();
    let mut hc = small(TXP, 0, TXF, 0, None);
    hc.send(Box::new([kani::any()]), 0, SendMode::TimeSensitive);
    let t0 = any_time_from(0);
    let t1 = any_time_from(t0);
    hc.sync_timeout_base_ms = t0;
    hc.flush_alloc = -1;
    let mut w = Wire::new();
    hc.emit_frames(t0, e.rtt, e.rto, 0, &mut w);
    assert!(w.n == 0, "[C13] nothing is transmitted on negative credit");
    hc.flush_id = 1;                      // step()
    hc.flush_alloc = AMPLE;
    hc.emit_frames(t1, e.rtt, e.rto, 1, &mut w);
    assert!(!is_data(&w.f0), "[C12] a TimeSensitive packet whose transmission had not begun by the next step() is never transmitted (credit-less flush in between)");
    std::mem::forget(w); std::mem::forget(hc);
}

// ---------------------------------------------------------------------------------------------------------------
// OF6: wire order of one flush (C05): datagrams leave in (packet id, fragment id) order across frame boundaries.
//@h props=C05,C04,C01,C13 tier=quick timeout=1500 role=flush-wire-order cbmc=--max-field-sensitivity-array-size+512
//@fn HalfConnection::{send, emit_frames, emit_data_frames}, PacketSender::{enqueue_packet, emit_packet}, PendingPacket::datagram, DataFrameEmitter::{push, finalize}, DataFrameBuilder::{add, encoded_size, build}
//@bound small connection (first packet id 2^20-1: the ids wrap inside the script); THREE packets submitted in one step: 1 byte Unreliable on channel 5, 1 byte Reliable on channel 63, 1449 bytes (two fragments) Unreliable on channel 5; one flush with ample credit at any time; payload bytes of the short packets any
//@assume as of1_two_flushes_reliable
#[kani::proof]
#[kani::unwind(5)]
#[kani::stub(crate::frame::serial::crc::compute, crate::frame::serial::verif_codec::crc_stub)]
#[kani::stub(alloc::rc::is_dangling, not_dangling)]
fn of6_wire_order_of_one_flush() {
    let e = any_env();
    let mut hc = small(TXP, 0, TXF, 0, None);
    let (b0, b1): (u8, u8) = (kani::any(), kani::any());
    hc.send(Box::new([b0]), 5, SendMode::Unreliable);
    hc.send(Box::new([b1]), 63, SendMode::Reliable);
    hc.send(vec![0u8; 1449].into_boxed_slice(), 5, SendMode::Unreliable);
    assert!(hc.send_buffer_size() == 1451, "[C20]");
    let t0 = any_time_from(0);
    hc.sync_timeout_base_ms = t0;
    hc.flush_alloc = AMPLE;
    let mut w = Wire::new();
    hc.emit_frames(t0, e.rtt, e.rto, 0, &mut w);
    assert!(w.n == 3 && w.max_len <= crate::MAX_FRAME_SIZE, "[C04] no frame exceeds 1472 bytes; a datagram that does not fit starts a new frame");
    let a = data_frame(&w.f0, 0).unwrap();
    let b = data_frame(&w.f0, 1).unwrap();
    let c = data_frame(&w.f1, 0).unwrap();
    let d = data_frame(&w.f2, 0).unwrap();
    assert!(a.count == 2 && c.count == 1 && d.count == 1);
    assert!(a.frame_id == TXF && c.frame_id == 0 && d.frame_id == 1, "[C01] consecutive frame ids across the 2^32 wrap");
    assert!(a.id == TXP && a.ch == 5 && a.len == 1 && a.b0 == b0 && a.last == 0, "[C05] first submitted, first on the wire");
    assert!(b.id == 0 && b.ch == 63 && b.len == 1 && b.b0 == b1 && b.last == 0, "[C05] second packet second (packet ids wrap at 2^20)");
    assert!(c.id == 1 && c.ch == 5 && c.frag == 0 && c.last == 1 && c.len == 1448, "[C05,C04] third packet, fragment 0: a full 1448-byte fragment");
    assert!(d.id == 1 && d.ch == 5 && d.frag == 1 && d.last == 1 && d.len == 1, "[C05,C04] third packet, fragment 1: the remaining byte");
    assert!(c.wlead == 1 && d.wlead == 1 && c.clead == 0, "[C02] the packet after a Reliable one names it as its window parent (not as channel parent: other channel)");
    assert!(hc.flush_alloc == AMPLE - w.bytes as isize, "[C13] every byte handed to the sink is debited");
    assert!(hc.is_send_pending(), "[C09] the Reliable fragment awaits its acknowledgement");
    std::mem::forget(w); std::mem::forget(hc);
}

// ---------------------------------------------------------------------------------------------------------------
// OF7: a packet cut by the flush credit continues with its next fragment in the next flush; no fragment of a
// non-resend packet goes out twice (C12, C04).
//@h props=C12,C04,C13,C05 tier=quick timeout=1500 role=flush-credit-cut cbmc=--max-field-sensitivity-array-size+512
//@fn HalfConnection::{send, emit_frames, emit_data_frames, is_send_pending}, DataFrameEmitter::{push, finalize}, FrameQueue::{push, mark_rate_limited}
//@bound small connection; ONE 1449-byte (two-fragment) Unreliable packet; first flush with 100 bytes of credit, second flush (any later time) with ample credit
//@assume as of1_two_flushes_reliable
#[kani::proof]
#[kani::unwind(5)]
#[kani::stub(crate::frame::serial::crc::compute, crate::frame::serial::verif_codec::crc_stub)]
#[kani::stub(alloc::rc::is_dangling, not_dangling)]
fn of7_packet_cut_by_credit_continues_in_next_flush() {
    let e = any_env();
    let mut hc = small(TXP, 0, TXF, 0, None);
    hc.send(vec![0u8; 1449].into_boxed_slice(), 7, SendMode::Unreliable);
    let t0 = any_time_from(0);
    let t1 = any_time_from(t0);
    hc.sync_timeout_base_ms = t0;
    hc.flush_alloc = 100;
    let mut w = Wire::new();
    hc.emit_frames(t0, e.rtt, e.rto, 0, &mut w);
    assert!(w.n == 1 && w.max_len == crate::MAX_FRAME_SIZE, "[C04] the full-size fragment makes a frame of exactly 1472 bytes");
    let a = data_frame(&w.f0, 0).unwrap();
    assert!(a.count == 1 && a.id == TXP && a.frag == 0 && a.last == 1 && a.len == 1448);
    assert!(hc.flush_alloc == 100 - 1472, "[C13] one flush overdraws the credit by less than one frame");
    assert!(hc.is_send_pending(), "[C09] the unsent fragment is pending");
    hc.flush_alloc = AMPLE;
    hc.emit_frames(t1, e.rtt, e.rto, 1, &mut w);
    assert!(is_data(&w.f1) && !is_data(&w.f2), "[C12] exactly one more data frame");
    let b = data_frame(&w.f1, 0).unwrap();
    assert!(b.count == 1 && b.id == TXP && b.frag == 1 && b.last == 1 && b.len == 1, "[C12,C04] the second flush continues with fragment 1 and does not repeat fragment 0");
    assert!(!hc.is_send_pending(), "[C09] nothing is left for an Unreliable packet once every fragment has gone out");
    assert!(hc.send_buffer_size() == 1449, "[C20] counted until the peer's window passes it");
    hc.handle_ack_frame(frame::AckFrame { frame_window_base_id: TXF, packet_window_base_id: 0, frame_acks: Vec::new() });
    assert!(hc.send_buffer_size() == 0, "[C20] zero once everything has been acknowledged (payload bytes, not fragment-rounded bytes)");
    std::mem::forget(w); std::mem::forget(hc);
}

// ---------------------------------------------------------------------------------------------------------------
// OF9: one frame carries a retransmission of packet A and the first transmission of packet B; the receiver moves
// past A before that frame is acknowledged.  B's fragment must still be marked acknowledged (C12, C15).
//@h props=C12,C15,C02,C09 tier=quick timeout=1800 role=flush-shared-frame-ack cbmc=--max-field-sensitivity-array-size+512 unwindset=FrameQueue17acknowledge_group.0:34
//@fn HalfConnection::{send, emit_frames, emit_data_frames, handle_ack_frame, is_send_pending}, FrameQueue::{push, acknowledge_group}, PacketSender::acknowledge, DataFrameEmitter::{push, finalize}
//@bound small connection; packet A (1 byte, Persistent) flushed at t0 = 1000 ms (rtt 50 ms); packet B (1 byte, Reliable) submitted; flush at 1300 ms (one frame: A again, then B); ack frame moving the packet window past A (no groups); ack frame acknowledging the shared frame (correct nonce; frame nonces pinned to true); flush at 2000 ms; payload bytes and CRC value any
//@assume as of2_valid_ack_stops_resend_reliable
#[kani::proof]
#[kani::unwind(5)]
#[kani::stub(crate::frame::serial::crc::compute, crate::frame::serial::verif_codec::crc_stub)]
#[kani::stub(alloc::rc::is_dangling, not_dangling)]
fn of9_ack_of_shared_frame_after_first_packet_was_passed() {
    unsafe { crate::verif_env::RANDOM_BOOL_FIXED = Some(true); }
    unsafe { crate::frame::serial::verif_codec::CRC_STUB_VALUE = kani::any(); }
    // times are concrete here: whether the retransmission is due decides a heap-modifying branch in the middle of the
    // script (DESIGN.md 10.8); the timing itself is the subject of of1/of8
    let e = Env { rtt: 50, rto: 200 };
    let mut hc = small(TXP, 0, TXF, 0, None);
    let (ba, bb): (u8, u8) = (kani::any(), kani::any());
    hc.send(Box::new([ba]), 0, SendMode::Persistent);
    let (t0, t1, t2): (u64, u64, u64) = (1000, 1300, 2000);
    hc.sync_timeout_base_ms = t0;
    hc.flush_alloc = AMPLE;
    let mut w = Wire::new();
    hc.emit_frames(t0, e.rtt, e.rto, 0, &mut w);
    assert!(w.n == 1);
    hc.send(Box::new([bb]), 0, SendMode::Reliable);
    hc.flush_alloc = AMPLE;
    hc.emit_frames(t1, e.rtt, e.rto, 1, &mut w);
    assert!(w.n == 2, "[C12,C05] the due retransmission and the new packet share one frame");
    let x = data_frame(&w.f1, 0).unwrap();
    let y = data_frame(&w.f1, 1).unwrap();
    assert!(x.count == 2 && x.frame_id == 0 && x.id == TXP && x.b0 == ba && y.id == 0 && y.b0 == bb, "[C05] retransmissions first, then new packets in submission order");
    // the receiver has moved past A (e.g. it delivered a later packet of that channel): A leaves the send window
    hc.handle_ack_frame(frame::AckFrame { frame_window_base_id: TXF, packet_window_base_id: 0, frame_acks: Vec::new() });
    assert!(hc.send_buffer_size() == 1);
    // the shared frame (id 0) is acknowledged
    hc.handle_ack_frame(frame::AckFrame { frame_window_base_id: TXF, packet_window_base_id: 0, frame_acks: vec![frame::AckGroup { base_id: 0, bitfield: 1, nonce: true }] });
    hc.flush_alloc = AMPLE;
    hc.emit_frames(t2, e.rtt, e.rto, 2, &mut w);
    assert!(!is_data(&w.f2) && !is_data(&w.f3), "[C12] a fragment is not transmitted again once its acknowledgement has been processed (even when the frame also carried a packet that no longer exists)");
    assert!(!hc.is_send_pending(), "[C09,C02] nothing is pending");
    std::mem::forget(w); std::mem::forget(hc);
}

// ---------------------------------------------------------------------------------------------------------------
// OF11: per-fragment acknowledgement of a two-fragment Reliable packet: the fragment whose frame was acknowledged is
// not sent again, the other one is retransmitted; the packet stays pending until both are acknowledged (C12, C02, C04).
fn two_fragment_reliable(acked_first: bool) {
    unsafe { crate::verif_env::RANDOM_BOOL_FIXED = Some(false); }
    unsafe { crate::frame::serial::verif_codec::CRC_STUB_VALUE = kani::any(); }
    let e = Env { rtt: 50, rto: 200 };
    let mut hc = small(TXP, 0, TXF, 0, None);
    hc.send(vec![0u8; 1449].into_boxed_slice(), 9, SendMode::Reliable);
    let (t0, t1): (u64, u64) = (1000, 1300);
    hc.sync_timeout_base_ms = t0;
    hc.flush_alloc = AMPLE;
    let mut w = Wire::new();
    hc.emit_frames(t0, e.rtt, e.rto, 0, &mut w);
    assert!(w.n == 2, "[C04] one frame per fragment: the full-size fragment fills a frame");
    let a = data_frame(&w.f0, 0).unwrap();
    let b = data_frame(&w.f1, 0).unwrap();
    assert!(a.frame_id == TXF && a.frag == 0 && a.len == 1448 && b.frame_id == 0 && b.frag == 1 && b.len == 1 && a.id == TXP && b.id == TXP);
    // the peer acknowledges exactly one of the two frames
    let acked_frame = if acked_first { TXF } else { 0 };
    hc.handle_ack_frame(frame::AckFrame { frame_window_base_id: TXF, packet_window_base_id: TXP, frame_acks: vec![frame::AckGroup { base_id: acked_frame, bitfield: 1, nonce: false }] });
    hc.flush_alloc = AMPLE;
    hc.emit_frames(t1, e.rtt, e.rto, 1, &mut w);
    assert!(is_data(&w.f2) && !is_data(&w.f3), "[C12,C02] exactly the unacknowledged fragment is retransmitted");
    let c = data_frame(&w.f2, 0).unwrap();
    assert!(c.count == 1 && c.id == TXP && c.last == 1 && c.frag == if acked_first { 1 } else { 0 }, "[C12] the acknowledged fragment is not transmitted again, the other one is");
    assert!(c.len == if acked_first { 1 } else { 1448 }, "[C04] a retransmitted fragment carries the same slice");
    assert!(hc.is_send_pending() && hc.send_buffer_size() == 1449, "[C09,C20] the packet stays pending and counted until every fragment is acknowledged and the window passes it");
    std::mem::forget(w); std::mem::forget(hc);
}

//@h props=C12,C02,C04,C09,C20 tier=quick timeout=900 role=flush-per-fragment-ack cbmc=--max-field-sensitivity-array-size+512 unwindset=FrameQueue17acknowledge_group.0:34
//@fn HalfConnection::{send, emit_frames, emit_data_frames, handle_ack_frame, is_send_pending, send_buffer_size}, FrameQueue::acknowledge_group, PendingPacket::{acknowledge_fragment, fragment_acknowledged, datagram}
//@bound small connection; ONE 1449-byte (two-fragment) Reliable packet; flush at 1000 ms (rtt 50 ms): two frames; ack group for the FIRST frame only (frame nonces pinned to false); flush at 1300 ms; CRC value any
//@assume as of2_valid_ack_stops_resend_reliable; times concrete (whether a retransmission is due decides a heap-modifying branch in the middle of the script)
#[kani::proof]
#[kani::unwind(5)]
#[kani::stub(crate::frame::serial::crc::compute, crate::frame::serial::verif_codec::crc_stub)]
#[kani::stub(alloc::rc::is_dangling, not_dangling)]
fn of11_only_the_unacknowledged_fragment_is_resent_first_acked() { two_fragment_reliable(true); }

//@h props=C12,C02,C04,C09,C20 tier=thorough timeout=900 role=flush-per-fragment-ack cbmc=--max-field-sensitivity-array-size+512 unwindset=FrameQueue17acknowledge_group.0:34
//@fn HalfConnection::{send, emit_frames, emit_data_frames, handle_ack_frame, is_send_pending, send_buffer_size}, FrameQueue::acknowledge_group, PendingPacket::{acknowledge_fragment, fragment_acknowledged, datagram}
//@bound as of11_only_the_unacknowledged_fragment_is_resent_first_acked, with the SECOND frame acknowledged
//@assume as of11_only_the_unacknowledged_fragment_is_resent_first_acked
#[kani::proof]
#[kani::unwind(5)]
#[kani::stub(crate::frame::serial::crc::compute, crate::frame::serial::verif_codec::crc_stub)]
#[kani::stub(alloc::rc::is_dangling, not_dangling)]
fn of11_only_the_unacknowledged_fragment_is_resent_second_acked() { two_fragment_reliable(false); }

// ---------------------------------------------------------------------------------------------------------------
// C19: a connection dropped in mid-transfer (unacknowledged fragments in the resend queue and in the frame log, an
// unsent fragment in the pending queue, a packet still in the send queue) releases everything it allocated.
//@h props=C19,C12 tier=quick timeout=1200 role=leak-connection cbmc=--max-field-sensitivity-array-size+512+--memory-leak-check
//@fn drop glue of HalfConnection (PacketSender, PendingQueue, ResendQueue, FrameQueue with fragment references, PacketReceiver, FrameAckQueue), HalfConnection::{send, emit_frames}
//@bound small connection; three packets submitted (1 byte Reliable, 1449 bytes Persistent, 1 byte Unreliable); one flush whose credit (1480 bytes) cuts the second packet after its first fragment (two frames on the wire); then the connection and the recorded frames are dropped
//@assume as of1_two_flushes_reliable; CBMC's memory-leak check (every allocation still live at the end of the harness is a leak); Kani's allocator model checks every deallocation layout
#[kani::proof]
#[kani::unwind(5)]
#[kani::stub(crate::frame::serial::crc::compute, crate::frame::serial::verif_codec::crc_stub)]
#[kani::stub(alloc::rc::is_dangling, not_dangling)]
fn o19_2_connection_dropped_mid_transfer() {
    let mut hc = small(TXP, 0, TXF, 0, None);
    hc.send(Box::new([1]), 0, SendMode::Reliable);
    hc.send(vec![0u8; 1449].into_boxed_slice(), 1, SendMode::Persistent);
    hc.send(Box::new([3]), 2, SendMode::Unreliable);
    hc.sync_timeout_base_ms = 1000;
    hc.flush_alloc = 1480;
    let mut w = Wire::new();
    hc.emit_frames(1000, 50, 200, 0, &mut w);
    assert!(w.n == 2 && hc.is_send_pending());
    assert!(hc.resend_queue.len() == 2 && hc.pending_queue.len() == 1 && hc.packet_sender.pending_count() == 1, "mid-transfer: fragments in every queue");
    drop(hc);
    drop(w);
}

// ---------------------------------------------------------------------------------------------------------------
// OF12: a zero-length Reliable packet is a packet like any other: it is pending until acknowledged (C09, C02).
//@h props=C09,C02,C12,C04 tier=quick timeout=900 role=flush-empty-packet cbmc=--max-field-sensitivity-array-size+512
//@fn HalfConnection::{send, emit_frames, emit_data_frames, is_send_pending, send_buffer_size}, PendingPacket::new (zero-length payload: one empty fragment)
//@bound small connection; ONE zero-length Reliable packet; flush at any t0 with NEGATIVE credit (nothing can be sent), flush at any t1 >= t0 with ample credit, flush at any t2 >= t1 + 4 rtt
//@assume as of1_two_flushes_reliable
#[kani::proof]
#[kani::unwind(4)]
#[kani::stub(crate::frame::serial::crc::compute, crate::frame::serial::verif_codec::crc_stub)]
#[kani::stub(alloc::rc::is_dangling, not_dangling)]
fn of12_empty_reliable_packet_is_pending_until_acknowledged() {
    let e = any_env();
    let mut hc = small(TXP, 0, TXF, 0, None);
    hc.send(Box::new([]), 4, SendMode::Reliable);
    assert!(hc.is_send_pending() && hc.send_buffer_size() == 0, "[C09] a queued packet is pending even if it has no payload");
    let t0 = any_time_from(0);
    let t1 = any_time_from(t0);
    let t2 = any_time_from(t1);
    kani::assume(t2 - t1 >= 4 * e.rtt);
    hc.sync_timeout_base_ms = t0;
    hc.flush_alloc = -1;
    let mut w = Wire::new();
    hc.emit_frames(t0, e.rtt, e.rto, 0, &mut w);
    assert!(w.n == 0 && hc.is_send_pending(), "[C09] pulled into the fragment queue but not sent: still pending");
    hc.flush_alloc = AMPLE;
    hc.emit_frames(t1, e.rtt, e.rto, 0, &mut w);
    assert!(w.n == 1);
    let s = data_frame(&w.f0, 0).unwrap();
    assert!(s.count == 1 && s.id == TXP && s.ch == 4 && s.len == 0 && s.frag == 0 && s.last == 0, "[C04] an empty packet is one empty fragment");
    assert!(hc.is_send_pending(), "[C09,C02] sent but unacknowledged: disconnect() must keep waiting");
    hc.flush_alloc = AMPLE;
    hc.emit_frames(t2, e.rtt, e.rto, 1, &mut w);
    assert!(is_data(&w.f1), "[C12,C02] and it is retransmitted like any other Reliable fragment");
    assert!(hc.is_send_pending());
    std::mem::forget(w); std::mem::forget(hc);
}

// ---------------------------------------------------------------------------------------------------------------
// O13.1: the credit refill of step(): at most rate x elapsed time is added, and the credit never exceeds one RTT's
// worth of the allowed rate (C13).  Rate and RTT are concrete per instance (float multiplication by a constant),
// the elapsed time and the previous credit are symbolic.
fn credit_refill(rate: u32, rtt_ms: Option<u64>) {
    let mut hc = small(0, 0, 0, 0, None);
    let rtt_s = rtt_ms.map(|m| m as f64 / 1000.0);
    hc.send_rate_comp.verif_set_rate_and_rtt(rate, rtt_s);
    let t_last = crate::verif_env::fake_instant();
    hc.time_last_flushed = Some(t_last);
    let dt_ms: u64 = kani::any();
    kani::assume(dt_ms <= 1 << 32);
    let now = t_last + std::time::Duration::from_millis(dt_ms);
    let c0: isize = kani::any();
    kani::assume(c0 >= -(1472 * 3) && c0 <= 1 << 40);
    hc.flush_alloc = c0;
    hc.fill_flush_alloc(now);
    let c1 = hc.flush_alloc;
    // exact integer bounds for the two float products (values < 2^53: the float result is within 1 of the exact one)
    let add_max = (rate as u128 * dt_ms as u128 / 1000) as i128 + 1;
    let cap = match rtt_ms { Some(m) => (rate as u128 * m as u128 / 1000) as i128 + 1, None => 0 };
    assert!((c1 as i128) <= (c0 as i128) + add_max, "[C13] a step adds at most (allowed rate x elapsed time) bytes of credit");
    assert!((c1 as i128) <= cap, "[C13] the credit never exceeds (allowed rate x RTT estimate): idle time is not banked");
    assert!(c1 <= c0 || c1 >= 0 || c0 < 0, "[C13]");
    assert!(hc.time_last_flushed == Some(now), "[C13] the refill clock restarts");
    kani::cover!(c1 > c0, "credit grew");
    std::mem::forget(hc);
}
macro_rules! o13_1 { ($name:ident, $rate:expr, $rtt:expr) => {
    #[kani::proof]
    #[kani::unwind(3)]
    fn $name() { credit_refill($rate, $rtt); }
} }
//@h props=C13 tier=quick timeout=300 role=credit-refill
//@fn HalfConnection::fill_flush_alloc, SendRateComp::{send_rate, rtt_s}
//@bound allowed rate 100000 B/s, RTT estimate 50 ms (concrete: float multiplication by constants); elapsed time since the last step ANY <= 2^32 ms; previous credit ANY in [-4416, 2^40]
//@assume Instant values built from a fixed base plus a Duration (Instant::now is not called by fill_flush_alloc itself)
o13_1!(o13_1_credit_refill_100k_50ms, 100_000, Some(50));
//@h props=C13 tier=quick timeout=300 role=credit-refill
//@fn HalfConnection::fill_flush_alloc
//@bound allowed rate 1472 B/s (the smallest ceiling of the property), RTT estimate 1000 ms; elapsed time and previous credit as above
//@assume as o13_1_credit_refill_100k_50ms
o13_1!(o13_1_credit_refill_1472_1s, 1472, Some(1000));
//@h props=C13 tier=thorough timeout=900 role=credit-refill
//@fn HalfConnection::fill_flush_alloc
//@bound allowed rate 2^32-1 B/s, RTT estimate 10 s; elapsed time and previous credit as above
//@assume as o13_1_credit_refill_100k_50ms
o13_1!(o13_1_credit_refill_max_rate_10s, u32::MAX, Some(10_000));
//@h props=C13 tier=quick timeout=300 role=credit-refill
//@fn HalfConnection::fill_flush_alloc
//@bound allowed rate 100000 B/s, NO RTT estimate yet (the credit ceiling is then 0: at most one frame per flush); elapsed time and previous credit as above
//@assume as o13_1_credit_refill_100k_50ms
o13_1!(o13_1_credit_refill_no_rtt_estimate, 100_000, None);

fn credit_refill_concrete(rate: u32, rtt_ms: Option<u64>, dt_ms: u64, c0: isize) -> isize {
    let mut hc = small(0, 0, 0, 0, None);
    hc.send_rate_comp.verif_set_rate_and_rtt(rate, rtt_ms.map(|m| m as f64 / 1000.0));
    let t_last = crate::verif_env::fake_instant();
    hc.time_last_flushed = Some(t_last);
    hc.flush_alloc = c0;
    hc.fill_flush_alloc(t_last + std::time::Duration::from_millis(dt_ms));
    let c1 = hc.flush_alloc;
    std::mem::forget(hc);
    c1
}
//@h props=C13 tier=quick timeout=600 role=credit-refill-points
//@fn HalfConnection::fill_flush_alloc
//@bound concrete points (rate, RTT, elapsed time, previous credit): a 3 s pause at 100 kB/s with a 50 ms RTT, a 20 ms step, an overdrawn credit, no RTT estimate - evaluated by constant folding (a cheap companion of the symbolic o13_1 obligations, which the solver may not refute quickly when the rule is broken)
#[kani::proof]
#[kani::unwind(3)]
fn o13_1_credit_refill_points() {
    // a long pause does not bank credit: capped at rate x RTT = 5000 bytes
    assert!(credit_refill_concrete(100_000, Some(50), 3000, 0) == 5000, "[C13] after a pause the credit is capped at (allowed rate x RTT estimate)");
    assert!(credit_refill_concrete(100_000, Some(50), 3000, 4000) == 5000, "[C13]");
    // an ordinary step adds rate x dt
    assert!(credit_refill_concrete(100_000, Some(50), 20, 1000) == 3000, "[C13] a step adds (allowed rate x elapsed time)");
    // an overdrawn credit is paid back first
    assert!(credit_refill_concrete(100_000, Some(50), 20, -1472) == 528, "[C13] an overdraft is paid back before anything new is allowed");
    // no RTT estimate yet: no positive credit at all (one frame per flush)
    assert!(credit_refill_concrete(100_000, None, 1000, -100) == 0 && credit_refill_concrete(100_000, None, 1000, 0) == 0, "[C13]");
}

//@file parent=src/half_connection/packet_receiver/assembly_window/fragment_buffer.rs
// FragmentBuffer: the only unsafe block of the crate (finalize).
use super::*;

fn finalize_layout(last_len: usize, last_first: bool) {
    let mut fb = FragmentBuffer::new(2);
    let mut last = vec![0u8; last_len].into_boxed_slice();
    let b1: u8 = kani::any();
    if last_len > 0 { last[last_len - 1] = b1; }
    let mut first = vec![0u8; MAX_FRAGMENT_SIZE].into_boxed_slice();
    let v: u8 = kani::any();
    first[77] = v;
    if last_first {
        fb.write(1, last);
        assert!(!fb.is_finished());
        fb.write(0, first);
    } else {
        fb.write(0, first);
        assert!(!fb.is_finished());
        fb.write(1, last);
    }
    assert!(fb.is_finished());
    let out = fb.finalize();
    assert!(out.len() == MAX_FRAGMENT_SIZE + last_len, "[C04] reassembled length is the sum of the fragment lengths");
    assert!(out[77] == v, "[C04] fragment 0 bytes in place");
    if last_len > 0 { assert!(out[MAX_FRAGMENT_SIZE + last_len - 1] == b1, "[C04] last fragment bytes in place"); }
    // dropping the box hands the block back to the allocator: Kani's allocator model asserts that the
    // layout passed to dealloc is the one the block was allocated with
    drop(out);
}

//@h props=C19,C04 tier=quick timeout=900 role=fragment-buffer-layout replay=none
//@fn FragmentBuffer::{new, write, is_finished, finalize}, drop of the returned Box<[u8]>
//@bound two fragments (1448 + 1 bytes, a size that is not a multiple of the fragment size), written in order; payload bytes symbolic
#[kani::proof]
#[kani::unwind(3)]
fn o19_1_finalize_dealloc_layout_1449() { finalize_layout(1, false); }

//@h props=C19,C04 tier=quick timeout=900 role=fragment-buffer-layout replay=none
//@fn FragmentBuffer::{new, write, is_finished, finalize}, drop of the returned Box<[u8]>
//@bound two fragments (1448 + 0 bytes: an empty last fragment), last fragment written first
#[kani::proof]
#[kani::unwind(3)]
fn o19_1_finalize_dealloc_layout_1448_plus_empty() { finalize_layout(0, true); }

//@h props=C19,C04 tier=thorough timeout=900 role=fragment-buffer-layout replay=none
//@fn FragmentBuffer::{new, write, is_finished, finalize}, drop of the returned Box<[u8]>
//@bound two full fragments (2896 bytes, a multiple of the fragment size)
#[kani::proof]
#[kani::unwind(3)]
fn o19_1_finalize_dealloc_layout_2896() { finalize_layout(1448, false); }

fn dup_script(dup_first: bool) {
    // a fragment arrives twice with DIFFERENT contents before the packet completes: the first copy wins
    let mut fb = FragmentBuffer::new(2);
    let (v1, v2, x1, x2): (u8, u8, u8, u8) = (kani::any(), kani::any(), kani::any(), kani::any());
    let full = |v: u8| -> Box<[u8]> { let mut d = vec![0u8; MAX_FRAGMENT_SIZE].into_boxed_slice(); d[5] = v; d };
    if dup_first {
        fb.write(0, full(v1));
        fb.write(0, full(v2));
        assert!(!fb.is_finished(), "[C04] a repeated fragment does not complete the packet");
        fb.write(1, Box::new([x1]));
    } else {
        fb.write(1, Box::new([x1]));
        fb.write(1, Box::new([x2]));
        assert!(!fb.is_finished(), "[C04] a repeated fragment does not complete the packet");
        fb.write(0, full(v1));
    }
    assert!(fb.is_finished(), "[C04] complete exactly when every fragment was seen");
    assert!(fb.buffer[5] == v1 && fb.buffer[MAX_FRAGMENT_SIZE] == x1, "[C04] a repeated fragment never overwrites the first copy");
    assert!(fb.total_size == MAX_FRAGMENT_SIZE + 1);
    std::mem::forget(fb);
}

//@h props=C04 tier=quick timeout=900 role=fragment-buffer-dup
//@fn FragmentBuffer::{new, write, is_finished}
//@bound two fragments (1448 + 1 bytes); fragment 0 written twice with different symbolic contents, then fragment 1
#[kani::proof]
#[kani::unwind(3)]
fn o4_3_fragment_buffer_first_write_wins_dup0() { dup_script(true); }

//@h props=C04 tier=quick timeout=900 role=fragment-buffer-dup
//@fn FragmentBuffer::{new, write, is_finished}
//@bound two fragments; the last fragment written twice with different symbolic contents, then fragment 0
#[kani::proof]
#[kani::unwind(3)]
fn o4_3_fragment_buffer_first_write_wins_dup1() { dup_script(false); }

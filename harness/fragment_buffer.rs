//@file parent=src/half_connection/packet_receiver/assembly_window/fragment_buffer.rs
// FragmentBuffer: the only unsafe block of the crate (finalize).
use super::*;

fn finalize_layout(last_len: usize, last_first: bool) {
    let mut fb = FragmentBuffer::new(2);
    let mut last = vec![0u8; last_len].into_boxed_slice();
    let b1: u8 = kani::any();
    if last_len > 0 { last[last_len - 1] = b1; }
    let mut first = vec![0u8; MAX_FRAGMENT_SIZE].into_boxed_slice();
    let v: u8 = kani::any();
    first[77] = v;
    if last_first {
        fb.write(1, last);
        assert!(!fb.is_finished());
        fb.write(0, first);
    } else {
        fb.write(0, first);
        assert!(!fb.is_finished());
        fb.write(1, last);
    }
    assert!(fb.is_finished());
    let out = fb.finalize();
    assert!(out.len() == MAX_FRAGMENT_SIZE + last_len, "[C04] reassembled length is the sum of the fragment lengths");
    assert!(out[77] == v, "[C04] fragment 0 bytes in place");
    if last_len > 0 { assert!(out[MAX_FRAGMENT_SIZE + last_len - 1] == b1, "[C04] last fragment bytes in place"); }
    // dropping the box hands the block back to the allocator: Kani's allocator model asserts that the
    // layout passed to dealloc is the one the block was allocated with
    drop(out);
}

//@h props=C19,C04 tier=quick timeout=900 role=fragment-buffer-layout replay=none
//@fn FragmentBuffer::{new, write, is_finished, finalize}, drop of the returned Box<[u8]>
//@bound two fragments (1448 + 1 bytes, a size that is not a multiple of the fragment size), written in order; payload bytes symbolic
#[kani::proof]
#[kani::unwind(3)]
fn o19_1_finalize_dealloc_layout_1449() { finalize_layout(1, false); }

//@h props=C19,C04 tier=quick timeout=900 role=fragment-buffer-layout replay=none
//@fn FragmentBuffer::{new, write, is_finished, finalize}, drop of the returned Box<[u8]>
//@bound two fragments (1448 + 0 bytes: an empty last fragment), last fragment written first
#[kani::proof]
#[kani::unwind(3)]
fn o19_1_finalize_dealloc_layout_1448_plus_empty() { finalize_layout(0, true); }

//@h props=C19,C04 tier=thorough timeout=900 role=fragment-buffer-layout replay=none
//@fn FragmentBuffer::{new, write, is_finished, finalize}, drop of the returned Box<[u8]>
//@bound two full fragments (2896 bytes, a multiple of the fragment size)
#[kani::proof]
#[kani::unwind(3)]
fn o19_1_finalize_dealloc_layout_2896() { finalize_layout(1448, false); }

//@h props=C04 tier=quick timeout=900 role=fragment-buffer-dup
//@fn FragmentBuffer::{new, write, is_finished}
//@bound two fragments, three writes choosing any fragment index each time, contents differ per write: the first write of a fragment wins, completion exactly when both were seen
#[kani::proof]
#[kani::unwind(5)]
fn o4_3_fragment_buffer_first_write_wins() {
    let mut fb = FragmentBuffer::new(2);
    let mut seen = [false, false];
    let mut val = [0u8, 0u8];
    let mut w = 0;
    while w < 3 {
        let idx: usize = kani::any();
        kani::assume(idx < 2);
        let v: u8 = kani::any();
        let data: Box<[u8]> = if idx == 0 { let mut d = vec![0u8; MAX_FRAGMENT_SIZE].into_boxed_slice(); d[5] = v; d } else { Box::new([v]) };
        fb.write(idx, data);
        if !seen[idx] { seen[idx] = true; val[idx] = v; }
        assert!(fb.is_finished() == (seen[0] && seen[1]), "[C04] complete exactly when every fragment was seen");
        w += 1;
    }
    if seen[0] { assert!(fb.buffer[5] == val[0], "[C04] a repeated fragment never overwrites the first copy"); }
    if seen[1] { assert!(fb.buffer[MAX_FRAGMENT_SIZE] == val[1], "[C04] a repeated fragment never overwrites the first copy"); }
    assert!(fb.total_size == (if seen[0] { MAX_FRAGMENT_SIZE } else { 0 }) + (if seen[1] { 1 } else { 0 }));
    std::mem::forget(fb);
}

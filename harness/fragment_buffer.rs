//@file parent=src/half_connection/packet_receiver/assembly_window/fragment_buffer.rs
// FragmentBuffer: the only unsafe block of the crate (finalize).
use super::*;

//@h props=C19,C04 tier=quick timeout=900 role=fragment-buffer-layout replay=none
//@fn FragmentBuffer::{new, write, is_finished, finalize}, drop of the returned Box<[u8]>
//@bound two fragments: a full 1448-byte fragment 0 and a last fragment of any length 0..=3, written in either order; Kani's allocator model checks dealloc size == allocation size
#[kani::proof]
#[kani::unwind(5)]
fn o19_1_finalize_dealloc_layout() {
    let mut fb = FragmentBuffer::new(2);
    let n: usize = kani::any();
    kani::assume(n <= 3);
    let last: Box<[u8]> = if n == 0 { Box::new([]) } else if n == 1 { Box::new([kani::any()]) } else if n == 2 { Box::new([kani::any(), kani::any()]) } else { Box::new([kani::any(), kani::any(), kani::any()]) };
    let b1: u8 = if n > 0 { last[n - 1] } else { 0 };
    let mut first = vec![0u8; MAX_FRAGMENT_SIZE].into_boxed_slice();
    let k: usize = kani::any();
    kani::assume(k < MAX_FRAGMENT_SIZE);
    let v: u8 = kani::any();
    first[k] = v;
    if kani::any() {
        fb.write(0, first);
        assert!(!fb.is_finished());
        fb.write(1, last);
    } else {
        fb.write(1, last);
        assert!(!fb.is_finished());
        fb.write(0, first);
    }
    assert!(fb.is_finished());
    let out = fb.finalize();
    assert!(out.len() == MAX_FRAGMENT_SIZE + n, "[C04] reassembled length is the sum of the fragment lengths");
    assert!(out[k] == v, "[C04] fragment 0 bytes in place");
    if n > 0 { assert!(out[MAX_FRAGMENT_SIZE + n - 1] == b1, "[C04] last fragment bytes in place"); }
    // dropping the box hands the block back to the allocator: must use the layout it was allocated with
    drop(out);
}

//@h props=C04 tier=quick timeout=900 role=fragment-buffer-dup
//@fn FragmentBuffer::{new, write, is_finished}
//@bound two fragments, three writes choosing any fragment index each time, contents differ per write: the first write of a fragment wins, completion exactly when both were seen
#[kani::proof]
#[kani::unwind(5)]
fn o4_3_fragment_buffer_first_write_wins() {
    let mut fb = FragmentBuffer::new(2);
    let mut seen = [false, false];
    let mut val = [0u8, 0u8];
    let mut w = 0;
    while w < 3 {
        let idx: usize = kani::any();
        kani::assume(idx < 2);
        let v: u8 = kani::any();
        let data: Box<[u8]> = if idx == 0 { let mut d = vec![0u8; MAX_FRAGMENT_SIZE].into_boxed_slice(); d[5] = v; d } else { Box::new([v]) };
        fb.write(idx, data);
        if !seen[idx] { seen[idx] = true; val[idx] = v; }
        assert!(fb.is_finished() == (seen[0] && seen[1]), "[C04] complete exactly when every fragment was seen");
        w += 1;
    }
    if seen[0] { assert!(fb.buffer[5] == val[0], "[C04] a repeated fragment never overwrites the first copy"); }
    if seen[1] { assert!(fb.buffer[MAX_FRAGMENT_SIZE] == val[1], "[C04] a repeated fragment never overwrites the first copy"); }
    assert!(fb.total_size == (if seen[0] { MAX_FRAGMENT_SIZE } else { 0 }) + (if seen[1] { 1 } else { 0 }));
    std::mem::forget(fb);
}

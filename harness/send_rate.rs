//@file parent=src/half_connection/send_rate.rs
// TFRC rate computation (RFC 5348): bounds on the allowed rate X for one call of SendRateComp::step.
use super::*;

fn any_finite_nonneg() -> f64 {
    // any RTT estimate a history can produce: an average of samples each below 2^40 ms (times are < 2^40 ms)
    let x: f64 = kani::any();
    kani::assume(x >= 0.0 && x <= 1.0e9);
    x
}

fn any_recv_set() -> recv_rate_set::RecvRateSet {
    crate::half_connection::recv_rate_set::verif_recv_rate_set::any_set()
}

// Any state in the given mode with MIN <= X <= ceiling (the two clauses of the invariant that the
// obligations below re-establish), ceiling >= one frame per second.
fn any_comp(mode: SendRateMode, rtt_s: Option<f64>) -> SendRateComp {
    let max_send_rate: u32 = kani::any();
    kani::assume(max_send_rate >= MSS as u32);
    let send_rate: u32 = kani::any();
    kani::assume(send_rate >= MINIMUM_RATE && send_rate <= max_send_rate);
    let p: f64 = kani::any();
    kani::assume(p >= 0.0 && p <= 1.0);
    SendRateComp {
        prev_loss_rate: p,
        nofeedback_exp_ms: Some(kani::any()),
        nofeedback_idle: kani::any(),
        mode,
        send_rate,
        max_send_rate,
        recv_rate_set: any_recv_set(),
        rtt_s,
        rtt_ms: if rtt_s.is_some() { Some(kani::any()) } else { None },
        rto_ms: if kani::any() { Some(kani::any()) } else { None },
    }
}

fn any_now(c: &SendRateComp) -> u64 {
    let now: u64 = kani::any();
    kani::assume(now < 1 << 40);
    kani::assume(c.nofeedback_exp_ms.unwrap() < 1 << 40);
    now
}

//@h props=C14,C13,C03,C11 tier=quick timeout=900 role=rate-nofeedback-slowstart
//@fn SendRateComp::{step, nofeedback_expired, update_rto}, compute_initial_send_rate, s_to_ms
//@bound one step(now, None) at or after the no-feedback deadline from ANY slow-start state with MIN <= X <= ceiling: X, ceiling >= 1472, idle flag, X_recv_set (1..2 entries), RTT estimate (None or any finite f64 >= 0, 0 included), times < 2^40 all symbolic
#[kani::proof]
#[kani::unwind(4)]
fn o14_4_nofeedback_expiry_slow_start() {
    let rtt = if kani::any() { Some(any_finite_nonneg()) } else { None };
    let tld = if rtt.is_some() { Some(kani::any()) } else { None };
    let mut c = any_comp(SendRateMode::SlowStart(SlowStartState { time_last_doubled_ms: tld }), rtt);
    // before any feedback the idle flag is false (notify_frame_sent precedes the first expiry)
    if rtt.is_none() { kani::assume(!c.nofeedback_idle); }
    let now = any_now(&c);
    kani::assume(now >= c.nofeedback_exp_ms.unwrap());
    let x0 = c.send_rate;
    let ceil = c.max_send_rate;
    c.step(now, None, |_| ());
    let x1 = c.send_rate;
    assert!(x1 <= x0, "[C14] the rate never increases while no feedback arrives");
    assert!(x1 == x0 || x1 == (x0 / 2).max(MINIMUM_RATE), "[C14] a no-feedback expiry keeps or halves the rate");
    assert!(x1 >= MINIMUM_RATE, "[C14,C11] never below the s/64 floor");
    assert!(x1 <= ceil, "[C14,C13] never above the configured ceiling");
    assert!(c.nofeedback_exp_ms.unwrap() >= now, "[C11] the no-feedback timer is re-armed in the future");
    kani::cover!(x1 < x0, "halved");
    kani::cover!(x1 == x0 && x0 > MINIMUM_RATE, "kept (idle sender below twice the recover rate)");
    kani::cover!(rtt == Some(0.0), "RTT estimate of exactly 0");
    std::mem::forget(c);
}

//@h props=C14,C13,C03,C11 tier=quick timeout=900 role=rate-nofeedback-eqn also_quick=C13
//@fn SendRateComp::{step, nofeedback_expired, update_rto}, RecvRateSet::{max, reset}, compute_initial_send_rate, s_to_ms
//@bound one step(now, None) at or after the no-feedback deadline from ANY throughput-equation state with MIN <= X <= ceiling: X, X_Bps (send_rate_tcp), ceiling, idle flag, X_recv_set, RTT estimate (any finite f64 >= 0), times all symbolic
#[kani::proof]
#[kani::unwind(4)]
fn o14_4_nofeedback_expiry_eqn() {
    let rtt = Some(any_finite_nonneg());
    let tcp: u32 = kani::any();
    let mut c = any_comp(SendRateMode::ThroughputEqn(ThroughputEqnState { send_rate_tcp: tcp }), rtt);
    let now = any_now(&c);
    kani::assume(now >= c.nofeedback_exp_ms.unwrap());
    let x0 = c.send_rate;
    let ceil = c.max_send_rate;
    c.step(now, None, |_| ());
    let x1 = c.send_rate;
    assert!(x1 >= MINIMUM_RATE, "[C14,C11] never below the s/64 floor");
    assert!(x1 <= ceil, "[C14,C13] never above the configured ceiling");
    assert!(c.recv_rate_set.max() <= u32::MAX, "[C03] X_recv_set non-empty");
    assert!(c.nofeedback_exp_ms.unwrap() >= now, "[C11] the no-feedback timer is re-armed in the future");
    kani::cover!(x1 < x0, "reduced");
    kani::cover!(tcp > ceil, "equation rate above the ceiling");
    kani::cover!(tcp < MINIMUM_RATE, "equation rate below the floor");
    std::mem::forget(c);
}

//@h props=C14 tier=quick timeout=900 role=rate-nofeedback-eqn-halving
//@fn SendRateComp::{step, nofeedback_expired}, RecvRateSet::{max, reset}
//@bound as o14_4_nofeedback_expiry_eqn, from states in which X is what the last update computed from X_Bps and X_recv_set: X = clamp(min(X_Bps, L)) with L in {max(X_recv_set), 2*max(X_recv_set), 2*max(X_recv_set)+1}
#[kani::proof]
#[kani::unwind(4)]
fn o14_4_nofeedback_expiry_eqn_keeps_or_halves() {
    let rtt = Some(any_finite_nonneg());
    let tcp: u32 = kani::any();
    let mut c = any_comp(SendRateMode::ThroughputEqn(ThroughputEqnState { send_rate_tcp: tcp }), rtt);
    let r = c.recv_rate_set.max();
    let which: u8 = kani::any();
    kani::assume(which < 3);
    let l = if which == 0 { r } else if which == 1 { r.saturating_mul(2) } else { r.saturating_mul(2).saturating_add(1) };
    kani::assume(c.send_rate == tcp.min(l).max(MINIMUM_RATE).min(c.max_send_rate));
    let now = any_now(&c);
    kani::assume(now >= c.nofeedback_exp_ms.unwrap());
    let x0 = c.send_rate;
    c.step(now, None, |_| ());
    let x1 = c.send_rate;
    assert!(x1 <= x0, "[C14] the rate never increases while no feedback arrives");
    assert!(x1 >= x0 / 2, "[C14] a no-feedback expiry at most halves the rate");
    kani::cover!(x1 == x0 / 2 && x0 > 2 * MINIMUM_RATE, "halved");
    kani::cover!(x1 == x0, "kept");
    std::mem::forget(c);
}

//@h props=C14 tier=quick timeout=600 role=rate-no-feedback-idle
//@fn SendRateComp::step
//@bound one step(now, None) BEFORE the no-feedback deadline from any state (either mode, all fields symbolic)
#[kani::proof]
#[kani::unwind(4)]
fn o14_5_no_change_without_feedback_before_expiry() {
    let rtt = if kani::any() { Some(any_finite_nonneg()) } else { None };
    let mode = if kani::any() { SendRateMode::SlowStart(SlowStartState { time_last_doubled_ms: if kani::any() { Some(kani::any()) } else { None } }) }
               else { SendRateMode::ThroughputEqn(ThroughputEqnState { send_rate_tcp: kani::any() }) };
    let mut c = any_comp(mode, rtt);
    let now = any_now(&c);
    kani::assume(now < c.nofeedback_exp_ms.unwrap());
    let (x0, rtt0, rtt_ms0, rto0, exp0, m0) = (c.send_rate, c.rtt_s, c.rtt_ms, c.rto_ms, c.nofeedback_exp_ms, c.recv_rate_set.max());
    c.step(now, None, |_| ());
    assert!(c.send_rate == x0, "[C14] the rate does not change while no feedback arrives and the timer has not expired");
    assert!(c.rtt_ms == rtt_ms0 && c.rto_ms == rto0 && c.nofeedback_exp_ms == exp0 && c.recv_rate_set.max() == m0);
    match (c.rtt_s, rtt0) { (Some(a), Some(b)) => assert!(a == b), (None, None) => (), _ => panic!("rtt changed") }
    std::mem::forget(c);
}

//@h props=C14 tier=quick timeout=900 role=rate-await-send
//@fn SendRateComp::{new, step, notify_frame_sent}
//@bound new(ceiling any) then step with ANY feedback before the first frame was sent, then notify_frame_sent(any t), then step(None) before t+2000
#[kani::proof]
#[kani::unwind(4)]
fn o14_0_initial_state() {
    let ceil: u32 = kani::any();
    let mut c = SendRateComp::new(ceil);
    assert!(c.send_rate == MSS as u32 && c.rtt_ms().is_none());
    let fb = FeedbackData { rtt_ms: kani::any(), receive_rate: kani::any(), loss_rate: 0.0, rate_limited: kani::any() };
    c.step(kani::any(), Some(fb), |_| ());
    assert!(c.send_rate == MSS as u32, "[C14] nothing changes before the first frame is sent");
    let t: u64 = kani::any();
    kani::assume(t < 1 << 40);
    c.notify_frame_sent(t);
    assert!(c.nofeedback_exp_ms == Some(t + 2000), "[C14] initial no-feedback timer of 2 s");
    assert!(c.recv_rate_set.max() == u32::MAX, "[C14] X_recv_set starts at infinity");
    std::mem::forget(c);
}

// ---- feedback steps: RTT state and RTT sample from a concrete grid (every float operation that
// ---- involves them constant-folds); X, receive rate, ceiling, flags, times symbolic.

fn slow_start_feedback(rtt_state_ms: Option<u64>, sample_ms: u64) -> (u32, u32, u32) {
    let rtt = rtt_state_ms.map(|m| m as f64 / 1000.0);
    let tld = if rtt.is_some() { Some(kani::any::<u64>()) } else { None };
    let mut c = any_comp(SendRateMode::SlowStart(SlowStartState { time_last_doubled_ms: tld }), rtt);
    c.prev_loss_rate = 0.0;
    let now = any_now(&c);
    if let Some(t) = tld { kani::assume(t <= now); }
    kani::assume(crate::half_connection::recv_rate_set::verif_recv_rate_set::timestamps_le(&c.recv_rate_set, now));
    let x0 = c.send_rate;
    let ceil = c.max_send_rate;
    let fb = FeedbackData { rtt_ms: sample_ms, receive_rate: kani::any(), loss_rate: 0.0, rate_limited: kani::any() };
    let mut reset_called = false;
    c.step(now, Some(fb), |_| reset_called = true);
    let x1 = c.send_rate;
    // reference: R' = 0.9 R + 0.1 sample (first sample taken as is); initial window rate 4380/R'
    let sample_s = sample_ms as f64 / 1000.0;
    let r1 = match rtt { Some(r) => 0.9 * r + 0.1 * sample_s, None => sample_s };
    let got = c.rtt_s.unwrap();
    assert!((got - r1).abs() <= 1e-12 * (1.0 + r1), "[C14] RTT estimate is the 0.9/0.1 moving average of the samples");
    assert!(c.rtt_ms == Some((r1 * 1000.0).round() as u64) || c.rtt_ms == Some((got * 1000.0).round() as u64), "[C14] millisecond RTT follows the estimate");
    let init = (4380.0 / got) as u32;
    assert!(x1 <= ceil, "[C14,C13] never above the configured ceiling");
    assert!(x1 as u64 <= (2 * x0 as u64).max(init as u64), "[C14] one feedback at most doubles the rate or sets the initial window per RTT");
    assert!(!reset_called, "loss history untouched without loss");
    if let Some(t) = tld {
        if now - t < c.rtt_ms.unwrap() { assert!(x1 <= x0, "[C14] no doubling sooner than one RTT after the previous one"); }
    }
    assert!(c.nofeedback_exp_ms.unwrap() >= now);
    std::mem::forget(c);
    (x0, x1, init)
}

macro_rules! ss_feedback {
    ($name:ident, $state:expr, $sample:expr) => {
        #[kani::proof]
        #[kani::unwind(4)]
        fn $name() { let _ = slow_start_feedback($state, $sample); }
    };
    ($name:ident, $state:expr, $sample:expr, doubling) => {
        #[kani::proof]
        #[kani::unwind(4)]
        fn $name() {
            let (x0, x1, init) = slow_start_feedback($state, $sample);
            kani::cover!(x1 as u64 == 2 * x0 as u64 && x1 > init, "doubled");
        }
    };
}

//@h props=C14,C13,C03 tier=quick timeout=900 role=rate-slowstart-feedback
//@fn SendRateComp::{step, handle_feedback, update_rtt, update_rto}, RecvRateSet updates, compute_initial_send_rate
//@bound first feedback (no RTT state), RTT sample 50 ms; X, receive rate, ceiling, rate-limited flag, times symbolic; no loss
ss_feedback!(o14_2_slow_start_first_feedback_50, None, 50);
//@h props=C13,C14,C03 tier=quick timeout=900 role=rate-slowstart-feedback
//@fn SendRateComp::{step, handle_feedback, update_rtt, update_rto}, RecvRateSet updates, compute_initial_send_rate
//@bound RTT state 150 ms, sample 50 ms; X, receive rate, ceiling, flags, times symbolic; no loss
ss_feedback!(o14_2_slow_start_feedback_150_50, Some(150), 50, doubling);
//@h props=C14,C13,C03 tier=quick timeout=900 role=rate-slowstart-feedback
//@fn SendRateComp::{step, handle_feedback, update_rtt, update_rto}, RecvRateSet updates, compute_initial_send_rate
//@bound RTT state 0 ms, sample 0 ms (sub-millisecond LAN); X, receive rate, ceiling, flags, times symbolic; no loss
ss_feedback!(o14_2_slow_start_feedback_0_0, Some(0), 0);
//@h props=C14,C13,C03 tier=thorough timeout=900 role=rate-slowstart-feedback
//@fn SendRateComp::{step, handle_feedback, update_rtt, update_rto}, RecvRateSet updates, compute_initial_send_rate
//@bound first feedback, RTT sample 0 ms
ss_feedback!(o14_2_slow_start_first_feedback_0, None, 0);
//@h props=C14,C13,C03 tier=thorough timeout=900 role=rate-slowstart-feedback
//@fn SendRateComp::{step, handle_feedback, update_rtt, update_rto}, RecvRateSet updates, compute_initial_send_rate
//@bound RTT state 7 ms, sample 1000 ms (order-of-magnitude RTT change)
ss_feedback!(o14_2_slow_start_feedback_7_1000, Some(7), 1000, doubling);
//@h props=C14,C13,C03 tier=thorough timeout=900 role=rate-slowstart-feedback
//@fn SendRateComp::{step, handle_feedback, update_rtt, update_rto}, RecvRateSet updates, compute_initial_send_rate
//@bound RTT state 10000 ms, sample 1 ms
ss_feedback!(o14_2_slow_start_feedback_10000_1, Some(10000), 1, doubling);
//@h props=C14,C13,C03 tier=thorough timeout=900 role=rate-slowstart-feedback
//@fn SendRateComp::{step, handle_feedback, update_rtt, update_rto}, RecvRateSet updates, compute_initial_send_rate
//@bound RTT state 1 ms, sample 1 ms
ss_feedback!(o14_2_slow_start_feedback_1_1, Some(1), 1);

fn x_eqn(r: f64, p: f64) -> f64 {
    // RFC 5348 section 3.1 with b = 1, t_RTO = 4R, s = 1472
    1472.0 / (r * (2.0 * p / 3.0).sqrt() + 4.0 * r * 3.0 * (3.0 * p / 8.0).sqrt() * p * (1.0 + 32.0 * p * p))
}

fn eqn_feedback(rtt_state_ms: u64, sample_ms: u64, p: f64) {
    let rtt = Some(rtt_state_ms as f64 / 1000.0);
    let mut c = any_comp(SendRateMode::ThroughputEqn(ThroughputEqnState { send_rate_tcp: kani::any() }), rtt);
    let now = any_now(&c);
    kani::assume(crate::half_connection::recv_rate_set::verif_recv_rate_set::timestamps_le(&c.recv_rate_set, now));
    let ceil = c.max_send_rate;
    let fb = FeedbackData { rtt_ms: sample_ms, receive_rate: kani::any(), loss_rate: p, rate_limited: kani::any() };
    c.step(now, Some(fb), |_| ());
    let x1 = c.send_rate;
    let got = c.rtt_s.unwrap();
    let bound = x_eqn(got, p);
    assert!(x1 >= MINIMUM_RATE, "[C14,C11] never below the s/64 floor");
    assert!(x1 <= ceil, "[C14,C13] never above the configured ceiling");
    assert!(x1 as f64 <= bound.max(MINIMUM_RATE as f64) * (1.0 + 1e-9), "[C14] once loss has been reported the rate never exceeds the TCP throughput equation");
    kani::cover!(bound < MINIMUM_RATE as f64 || (x1 > MINIMUM_RATE && (x1 as f64) > bound * 0.99), "limited by the equation (or by the floor when the equation is below it)");
    std::mem::forget(c);
}

macro_rules! eqn_fb {
    ($name:ident, $state:expr, $sample:expr, $p:expr) => {
        #[kani::proof]
        #[kani::unwind(4)]
        fn $name() { eqn_feedback($state, $sample, $p); }
    };
}

//@h props=C14,C13,C03 tier=quick timeout=900 role=rate-eqn-feedback
//@fn SendRateComp::{step, handle_feedback, update_rtt, update_rto}, eval_tcp_throughput, RecvRateSet updates
//@bound RTT state 150 ms, sample 50 ms, loss event rate 1/64; X, X_Bps, receive rate, previous loss rate, ceiling, flags, times symbolic
eqn_fb!(o14_3_eqn_feedback_150_50_p64, 150, 50, 0.015625);
//@h props=C14,C13,C03 tier=quick timeout=900 role=rate-eqn-feedback
//@fn SendRateComp::{step, handle_feedback, update_rtt, update_rto}, eval_tcp_throughput, RecvRateSet updates
//@bound RTT state 1000 ms, sample 1000 ms, loss event rate 1 (equation rate below the floor)
eqn_fb!(o14_3_eqn_feedback_1000_1000_p1, 1000, 1000, 1.0);
//@h props=C14,C13,C03 tier=thorough timeout=900 role=rate-eqn-feedback
//@fn SendRateComp::{step, handle_feedback, update_rtt, update_rto}, eval_tcp_throughput, RecvRateSet updates
//@bound RTT state 7 ms, sample 1 ms, loss event rate 2^-20 (equation rate far above any ceiling)
eqn_fb!(o14_3_eqn_feedback_7_1_p2m20, 7, 1, 0.00000095367431640625);
//@h props=C14,C13,C03 tier=thorough timeout=900 role=rate-eqn-feedback
//@fn SendRateComp::{step, handle_feedback, update_rtt, update_rto}, eval_tcp_throughput, RecvRateSet updates
//@bound RTT state 50 ms, sample 150 ms, loss event rate 1/4
eqn_fb!(o14_3_eqn_feedback_50_150_p4, 50, 150, 0.25);

//@h props=C03,C14 tier=quick timeout=900 role=rate-bisection-terminates unwind_violation=1 replay=none
//@fn eval_tcp_throughput_inv
//@bound every (rtt, target) with target <= 2^31; the loop body may run at most 128 times (the claimed bound on the work of one call)
//@assume eval_tcp_throughput replaced by a curve that stays above every target (returns u32::MAX): the situation of a small rate ceiling or a halved rate with a small RTT, where no loss rate in (0,1) reaches the target
#[kani::proof]
#[kani::unwind(130)]
#[kani::stub(crate::half_connection::send_rate::eval_tcp_throughput, crate::half_connection::send_rate::verif_send_rate::throughput_always_above)]
fn o3_7_bisection_terminates_target_unreachable_from_above() {
    let rtt: f64 = kani::any();
    let target: u32 = kani::any();
    kani::assume(target <= 1 << 31);
    let p = eval_tcp_throughput_inv(rtt, target);
    assert!(p >= 0.0 && p <= 1.0, "[C03,C14] the initial loss event rate is a probability");
}

pub(crate) fn throughput_always_above(_rtt: f64, _p: f64) -> u32 { u32::MAX }
pub(crate) fn throughput_always_below(_rtt: f64, _p: f64) -> u32 { 0 }

//@h props=C03,C14 tier=quick timeout=900 role=rate-bisection-terminates unwind_violation=1 replay=none
//@fn eval_tcp_throughput_inv
//@bound every (rtt, target) with target >= 1; at most 128 loop iterations
//@assume eval_tcp_throughput replaced by a curve that stays below every target (returns 0)
#[kani::proof]
#[kani::unwind(130)]
#[kani::stub(crate::half_connection::send_rate::eval_tcp_throughput, crate::half_connection::send_rate::verif_send_rate::throughput_always_below)]
fn o3_7_bisection_terminates_target_unreachable_from_below() {
    let rtt: f64 = kani::any();
    let target: u32 = kani::any();
    kani::assume(target >= 1);
    let p = eval_tcp_throughput_inv(rtt, target);
    assert!(p >= 0.0 && p <= 1.0, "[C03,C14] the initial loss event rate is a probability");
}

impl SendRateComp {
    // the two values HalfConnection::fill_flush_alloc reads, set directly (credit-refill obligations)
    pub(crate) fn verif_set_rate_and_rtt(&mut self, rate: u32, rtt_s: Option<f64>) { self.send_rate = rate; self.rtt_s = rtt_s; }
}

//@file parent=src/half_connection/mod.rs
// HalfConnection glue: sync-frame emission (keepalive C10, resynchronisation request C11/C02), ack
// emission (C11, C13), credit accounting (C13), wiring of network input to the components (C03, C01).
use super::*;
use std::collections::VecDeque;

// Loop-free stand-in for HalfConnection::new with 4-slot packet windows (small constructors of the
// components) and the real constructors of the loop-free components.
pub(crate) fn small(tx_packet_base: u32, rx_packet_base: u32, tx_frame_base: u32, rx_frame_base: u32, keepalive: Option<u64>) -> HalfConnection {
    HalfConnection {
        packet_sender: packet_sender::verif_packet_sender::small(4, tx_packet_base, 1448 * 4),
        pending_queue: pending_queue::PendingQueue::new(),
        resend_queue: resend_queue::ResendQueue::new(),
        frame_queue: frame_queue::FrameQueue::new(4, 4, tx_frame_base),
        packet_receiver: packet_receiver::verif_packet_receiver::small(rx_packet_base, 1448 * 4),
        frame_ack_queue: frame_ack_queue::FrameAckQueue::new(64, rx_frame_base),
        send_rate_comp: send_rate::SendRateComp::new(1_000_000),
        now_ms: 0, rtt_ms: 0, rto_ms: 0,
        time_base: crate::verif_env::fake_instant(),
        time_last_flushed: None,
        sync_timeout_base_ms: 0,
        flush_alloc: 0,
        flush_id: 0,
        sync_reply: false,
        sync_keepalive_interval_ms: keepalive,
    }
}

pub(crate) struct FrameLogSink { pub n: usize, pub bytes: usize, pub last_len: usize, pub head: [u8; 16], pub max_len: usize }
impl FrameLogSink { pub fn new() -> Self { Self { n: 0, bytes: 0, last_len: 0, head: [0; 16], max_len: 0 } } }
impl FrameSink for FrameLogSink {
    fn send(&mut self, f: &[u8]) {
        self.n += 1;
        self.bytes += f.len();
        self.last_len = f.len();
        if f.len() > self.max_len { self.max_len = f.len(); }
        let mut i = 0;
        while i < 16 && i < f.len() { self.head[i] = f[i]; i += 1; }
    }
}

fn be32(h: &[u8; 16], off: usize) -> u32 { ((h[off] as u32) << 24) | ((h[off + 1] as u32) << 16) | ((h[off + 2] as u32) << 8) | h[off + 3] as u32 }

fn dead_fragment() -> pending_packet::FragmentRef { pending_packet::FragmentRef { packet: std::rc::Weak::new(), fragment_id: 0 } }

//@h props=C10,C11,C02,C13 tier=quick timeout=1200 role=sync-emission also_quick=C02,C11
//@fn HalfConnection::emit_sync_frame, frame::Frame::write (sync)
//@bound ANY sender state as far as emit_sync_frame reads it: frame ids (next, base) any, packet ids equal or one outstanding, a further packet waiting in the send queue or not, pending/resend queue lengths in {0,1}, keepalive None or any interval, credit any isize, idle time and RTO any < 2^40
//@assume crc::compute stubbed (constant); small constructor (4-slot windows)
#[kani::proof]
#[kani::unwind(18)]
#[kani::stub(crate::frame::serial::crc::compute, crate::frame::serial::verif_codec::crc_stub)]
fn o10_3_sync_frame_emission() {
    let keepalive: Option<u64> = if kani::any() { Some(kani::any()) } else { None };
    let mut hc = small(0xFFFFF, 0, 0, 0, keepalive);
    // frames outstanding or not
    let fnext: u32 = kani::any();
    let fbase: u32 = kani::any();
    frame_queue::verif_frame_queue::set_ids(&mut hc.frame_queue, fbase, fnext, fbase);
    // packets outstanding or not
    let packets_out: bool = kani::any();
    if packets_out {
        hc.packet_sender.enqueue_packet(Box::new([1]), 0, crate::SendMode::Unreliable, 0);
        let r = hc.packet_sender.emit_packet(0);
        std::mem::forget(r);
    }
    // a backlog in the application's send queue (packets not yet pulled, e.g. because the window is full) must not matter
    let backlog: bool = kani::any();
    if backlog { hc.packet_sender.enqueue_packet(Box::new([2]), 0, crate::SendMode::Unreliable, 0); }
    let pend: bool = kani::any();
    let rsnd: bool = kani::any();
    if pend { hc.pending_queue.push_back(pending_queue::Entry::new(dead_fragment(), false)); }
    if rsnd { hc.resend_queue.push(resend_queue::Entry::new(dead_fragment(), kani::any(), 1)); }
    let base_ms: u64 = kani::any();
    let now: u64 = kani::any();
    let rto: u64 = kani::any();
    kani::assume(base_ms <= now && now < 1 << 40 && rto < 1 << 40);
    hc.sync_timeout_base_ms = base_ms;
    let credit: isize = kani::any();
    hc.flush_alloc = credit;
    let mut sink = FrameLogSink::new();
    let r = hc.emit_sync_frame(now, rto, &mut sink);
    let elapsed = now - base_ms;
    let frames_out = fnext != fbase;
    if sink.n == 1 {
        assert!(credit >= 0, "[C13] nothing is transmitted on negative credit");
        assert!(sink.last_len == 14 && sink.head[0] == 11 && hc.flush_alloc == credit - 14, "[C13] every byte sent is debited");
        assert!(hc.sync_timeout_base_ms == now, "[C10] the idle timer restarts");
        let mode = sink.head[1];
        assert!((mode & 1 != 0) == frames_out, "[C11] the sync frame names the next frame id exactly when frames are unacknowledged");
        if frames_out { assert!(be32(&sink.head, 2) == fnext); }
        if mode & 2 != 0 {
            assert!(packets_out && !pend && !rsnd, "[C02] a packet-window resynchronisation is offered only when nothing is queued for (re)transmission");
            assert!(be32(&sink.head, 6) == hc.packet_sender.next_id());
        }
    } else {
        assert!(sink.n == 0 && hc.flush_alloc == credit && hc.sync_timeout_base_ms == base_ms);
    }
    // liveness links (necessary conditions; thresholds deliberately weaker than the implementation's)
    if credit >= 0 && frames_out && elapsed >= rto.max(60_000) {
        assert!(sink.n == 1, "[C11] with frames unacknowledged and the line idle, the sender asks the receiver to resynchronise");
        if packets_out && !pend && !rsnd { assert!(sink.head[1] & 2 != 0, "[C11] ... including the packet window when nothing else would be sent"); }
    }
    if credit >= 0 && packets_out && !pend && !rsnd && elapsed >= rto.max(60_000) {
        assert!(sink.n == 1 && sink.head[1] & 2 != 0, "[C11] unacknowledged packets with empty queues lead to a packet-window resynchronisation request");
    }
    if let Some(iv) = keepalive {
        if credit >= 0 && elapsed >= rto.max(iv).max(10_000) {
            assert!(sink.n == 1, "[C10] with keepalive enabled an idle connection emits a sync frame");
        }
    } else if !frames_out && !(packets_out && !pend && !rsnd) {
        assert!(sink.n == 0, "[C10] without keepalive and nothing outstanding no sync frame is sent");
    }
    let _ = r;
    kani::cover!(sink.n == 1 && sink.head[1] == 0, "pure keepalive");
    kani::cover!(sink.n == 1 && sink.head[1] == 3, "frame and packet resynchronisation");
    std::mem::forget(hc);
}

fn ack_emission(groups: usize) {
    let mut hc = small(0, 0xFFFFE, 0, 0xFFFF_FFF0, None);
    let mut i = 0;
    while i < groups {
        // accepted data frames 40 ids apart: one ack group each
        hc.frame_ack_queue.mark_seen(0xFFFF_FFF0u32.wrapping_add(40 * i as u32), kani::any());
        i += 1;
    }
    let reply: bool = kani::any();
    hc.sync_reply = reply;
    let credit: isize = kani::any();
    hc.flush_alloc = credit;
    let fbase = hc.frame_ack_queue.base_id();
    let mut sink = FrameLogSink::new();
    let r = hc.emit_ack_frames(&mut sink);
    if credit < 0 {
        assert!(sink.n == 0 && hc.flush_alloc == credit, "[C13] nothing is transmitted on negative credit");
        assert!(r.is_err() == (reply || groups > 0));
    } else if reply || groups > 0 {
        assert!(sink.n == 1, "[C11] a sync frame is always answered, and owed ack groups are sent, when credit allows");
        assert!(sink.head[0] == 12 && be32(&sink.head, 1) == fbase && be32(&sink.head, 5) == 0xFFFFE, "[C11] the ack frame carries both current window bases");
        let sent_groups = (sink.head[9] as usize) << 8 | sink.head[10] as usize;
        assert!(sent_groups <= groups && sink.last_len == 15 + 9 * sent_groups, "[C13,C16] frame length matches its group count");
        assert!(hc.flush_alloc == credit - sink.bytes as isize, "[C13] every byte sent is debited");
        assert!(!hc.sync_reply, "[C11] the sync frame has been answered");
        if credit >= (15 + 9 * groups) as isize {
            assert!(sent_groups == groups && hc.frame_ack_queue.peek().is_none() && r.is_ok(), "[C11] with enough credit every owed ack group is sent");
        }
    } else {
        assert!(sink.n == 0 && hc.flush_alloc == credit);
    }
    assert!(sink.max_len <= crate::MAX_FRAME_SIZE, "[C04,C13] no frame exceeds 1472 bytes");
    std::mem::forget(hc);
}

//@h props=C13,C11,C10 tier=quick timeout=1200 role=ack-emission
//@fn HalfConnection::emit_ack_frames, AckFrameEmitter::{new, push_dud, push, finalize}, AckFrameBuilder, FrameAckQueue::{peek, pop, mark_seen}
//@bound no ack group queued; sync-reply flag any; credit any isize
//@assume crc::compute stubbed; small constructor
#[kani::proof]
#[kani::unwind(18)]
#[kani::stub(crate::frame::serial::crc::compute, crate::frame::serial::verif_codec::crc_stub)]
fn o11_2_ack_emission_no_groups() { ack_emission(0); }

//@h props=C11,C13,C10 tier=quick timeout=1200 role=ack-emission
//@fn HalfConnection::emit_ack_frames, AckFrameEmitter::{new, push_dud, push, finalize}, AckFrameBuilder, FrameAckQueue::{peek, pop, mark_seen}
//@bound two ack groups queued (frame ids crossing the 2^32 wrap); sync-reply flag any; credit any isize
//@assume crc::compute stubbed; small constructor
#[kani::proof]
#[kani::unwind(18)]
#[kani::stub(crate::frame::serial::crc::compute, crate::frame::serial::verif_codec::crc_stub)]
fn o11_2_ack_emission_two_groups() { ack_emission(2); }

//@h props=C11,C03,C02 tier=quick timeout=1200 role=sync-input
//@fn HalfConnection::handle_sync_frame, FrameAckQueue::resynchronize, PacketReceiver::resynchronize
//@bound fresh small connection (rx packet base 2^20-2, rx frame base 2^32-3, frame window 64); ONE sync frame whose two optional ids are ANY u32
#[kani::proof]
#[kani::unwind(7)]
fn o3_9_sync_frame_any_ids() {
    let mut hc = small(0, 0xFFFFE, 0, 0xFFFF_FFFD, None);
    let nf: Option<u32> = if kani::any() { Some(kani::any()) } else { None };
    let np: Option<u32> = if kani::any() { Some(kani::any()) } else { None };
    hc.handle_sync_frame(frame::SyncFrame { next_frame_id: nf, next_packet_id: np });
    assert!(hc.sync_reply, "[C11] every sync frame is answered with an ack");
    let fb = hc.frame_ack_queue.base_id();
    match nf {
        Some(id) if id.wrapping_sub(0xFFFF_FFFD) >= 1 && id.wrapping_sub(0xFFFF_FFFD) <= 64 => assert!(fb == id, "[C11] frame window resynchronised"),
        _ => assert!(fb == 0xFFFF_FFFD, "[C03] other ids leave the frame window alone"),
    }
    let pb = hc.packet_receiver.base_id();
    match np {
        Some(id) if crate::packet_id::is_valid(id) && crate::packet_id::sub(id, 0xFFFFE) <= 4 => assert!(pb == id, "[C11] an empty packet window moves to the sender's next id"),
        _ => assert!(pb == 0xFFFFE, "[C03] ids that are not packet ids, or beyond one window, leave the packet window alone"),
    }
    std::mem::forget(hc);
}

//@h props=C03,C15 tier=quick timeout=1500 role=ack-input unwindset=FrameQueue17acknowledge_group.0:34
//@fn HalfConnection::handle_ack_frame, FrameQueue::{acknowledge_group, advance_transfer_window}, PacketSender::acknowledge
//@bound fresh small connection (nothing sent; tx bases at the wrap); ONE ack frame with both window bases ANY u32 and one ack group of shape bitfield=0b1 with base and nonce any
#[kani::proof]
#[kani::unwind(7)]
fn o3_9_ack_frame_any_ids_fresh_connection() {
    let mut hc = small(0xFFFFF, 0, 0xFFFF_FFFF, 0, None);
    let g = frame::AckGroup { base_id: kani::any(), bitfield: 1, nonce: kani::any() };
    hc.handle_ack_frame(frame::AckFrame { frame_window_base_id: kani::any(), packet_window_base_id: kani::any(), frame_acks: vec![g] });
    assert!(hc.packet_sender.base_id() == 0xFFFFF && hc.packet_sender.next_id() == 0xFFFFF, "[C03,C15] nothing was sent: nothing can be acknowledged");
    assert!(hc.frame_queue.base_id() == 0xFFFF_FFFF && hc.frame_queue.next_id() == 0xFFFF_FFFF);
    assert!(hc.frame_queue.get_feedback(5).is_none(), "[C15] no feedback from an acknowledgement of frames never sent");
    std::mem::forget(hc);
}

//@h props=C01,C03 tier=quick timeout=1500 role=data-gate args=--no-memory-safety-checks cbmc=--max-field-sensitivity-array-size+512
//@assume Kani pointer checks off in this functional obligation
//@fn HalfConnection::{handle_data_frame, receive}, FrameAckQueue::{window_contains, mark_seen}, PacketReceiver::{handle_datagram, receive}
//@bound fresh small connection (rx frame base 2^32-3, frame window 64; rx packet base 2^20-1); ONE data frame with ANY frame id carrying one deliverable 2-byte packet, then the SAME frame again (network duplicate), then receive()
#[kani::proof]
#[kani::unwind(7)]
fn o1_3_data_frame_gate_and_duplicate() {
    let mut hc = small(0, 0xFFFFF, 0, 0xFFFF_FFFD, None);
    let id: u32 = kani::any();
    let d = frame::Datagram { sequence_id: 0xFFFFF, channel_id: 3, window_parent_lead: 0, channel_parent_lead: 0, fragment_id: 0, fragment_id_last: 0, data: Box::new([0, 42]) };
    let f = frame::DataFrame { sequence_id: id, nonce: kani::any(), datagrams: vec![d] };
    let f2 = f.clone();
    hc.handle_data_frame(f);
    hc.handle_data_frame(f2);
    let mut log = packet_receiver::verif_packet_receiver::LogSink::new();
    hc.receive(&mut log);
    let inside = id.wrapping_sub(0xFFFF_FFFD) < 64;
    if inside {
        assert!(log.n == 1 && log.val[0] == 42, "[C01] a frame inside the frame window is processed once, a network duplicate is not processed again");
        assert!(hc.frame_ack_queue.base_id() == id.wrapping_add(1));
        assert!(hc.packet_receiver.base_id() == 0);
    } else {
        assert!(log.n == 0 && hc.packet_receiver.base_id() == 0xFFFFF && hc.frame_ack_queue.base_id() == 0xFFFF_FFFD, "[C01,C03] a frame outside the frame window is not processed at all");
    }
    std::mem::forget(hc);
}

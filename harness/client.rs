//@file parent=src/client/mod.rs ignore=^__rust_dealloc\s\|
// Client lifecycle: handshake (C07), event grammar (C08), disconnect (C09), timeouts (C10), hostile frames (C03).
// The connection object is the opaque model of verif_env (see env.rs); the socket is the ghost-logged model.
use super::*;
use crate::verif_env as env;
use crate::verif_env::opaque as oq;

fn addr(port: u16) -> net::SocketAddr { net::SocketAddr::new(net::IpAddr::V4(net::Ipv4Addr::LOCALHOST), port) }

fn any_cfg() -> EndpointConfig {
    let c = EndpointConfig {
        max_send_rate: kani::any(), max_receive_rate: kani::any(), max_packet_size: kani::any(), max_receive_alloc: kani::any(),
        keepalive: kani::any(), keepalive_interval_ms: kani::any(), active_timeout_ms: kani::any(),
    };
    kani::assume(c.is_valid());
    kani::assume(c.active_timeout_ms < 1 << 40);
    c
}

fn mk_client(state: State, cfg: EndpointConfig) -> Client {
    oq::reset();
    Client { socket: net::UdpSocket::model(), config: Config { endpoint_config: cfg }, local_addr: addr(9), remote_addr: addr(10),
             time_base: env::fake_instant(), state, events_out: Vec::new() }
}

fn pending(nonce: u32, resend_time_ms: u64, resend_count: u8) -> State {
    State::Pending(PendingState { local_nonce: nonce, request_bytes: Box::new([0u8, 1, 2, 3]), resend_time_ms, resend_count, initial_sends: Vec::new() })
}

fn active(nonce: u32, timeout_time_ms: u64, sig: Option<DisconnectMode>) -> State {
    State::Active(ActiveState { local_nonce: nonce, half_connection: oq::HalfConnection::model(), timeout_time_ms, disconnect_signal: sig })
}

fn any_time() -> u64 { let t: u64 = kani::any(); kani::assume(t < 1 << 40); t }

fn be32(h: &[u8; 10], off: usize) -> u32 { ((h[off] as u32) << 24) | ((h[off + 1] as u32) << 16) | ((h[off + 2] as u32) << 8) | h[off + 3] as u32 }

// events_out summarised: number of each kind, and whether the order is Receive* then at most one other event last
struct Ev { n: usize, connect: usize, disconnect: usize, receive: usize, error: usize, timeout: usize, last_is_terminal: bool, receive_after_other: bool }
fn summarise(c: &Client) -> Ev {
    let mut e = Ev { n: c.events_out.len(), connect: 0, disconnect: 0, receive: 0, error: 0, timeout: 0, last_is_terminal: false, receive_after_other: false };
    let mut other_seen = false;
    let mut i = 0;
    while i < c.events_out.len() {
        e.last_is_terminal = false;
        match c.events_out[i] {
            Event::Connect => { e.connect += 1; other_seen = true; }
            Event::Disconnect => { e.disconnect += 1; other_seen = true; e.last_is_terminal = true; }
            Event::Receive(_) => { e.receive += 1; if other_seen { e.receive_after_other = true; } }
            Event::Error(ref t) => { e.error += 1; if *t == ErrorType::Timeout { e.timeout += 1; } other_seen = true; e.last_is_terminal = true; }
        }
        i += 1;
    }
    e
}

fn any_frame() -> frame::Frame {
    let k: u8 = kani::any();
    kani::assume(k < 9);
    match k {
        0 => frame::Frame::HandshakeSynFrame(frame::HandshakeSynFrame { version: kani::any(), nonce: kani::any(), max_receive_rate: kani::any(), max_packet_size: kani::any(), max_receive_alloc: kani::any() }),
        1 => frame::Frame::HandshakeSynAckFrame(frame::HandshakeSynAckFrame { nonce_ack: kani::any(), nonce: kani::any(), max_receive_rate: kani::any(), max_packet_size: kani::any(), max_receive_alloc: kani::any() }),
        2 => frame::Frame::HandshakeAckFrame(frame::HandshakeAckFrame { nonce_ack: kani::any() }),
        3 => {
            let e: u8 = kani::any();
            kani::assume(e < 3);
            let error = if e == 0 { frame::HandshakeErrorType::Version } else if e == 1 { frame::HandshakeErrorType::Config } else { frame::HandshakeErrorType::ServerFull };
            frame::Frame::HandshakeErrorFrame(frame::HandshakeErrorFrame { nonce_ack: kani::any(), error })
        }
        4 => frame::Frame::DisconnectFrame(frame::DisconnectFrame {}),
        5 => frame::Frame::DisconnectAckFrame(frame::DisconnectAckFrame {}),
        6 => frame::Frame::DataFrame(frame::DataFrame { sequence_id: kani::any(), nonce: kani::any(), datagrams: Vec::new() }),
        7 => frame::Frame::SyncFrame(frame::SyncFrame { next_frame_id: if kani::any() { Some(kani::any()) } else { None }, next_packet_id: if kani::any() { Some(kani::any()) } else { None } }),
        _ => frame::Frame::AckFrame(frame::AckFrame { frame_window_base_id: kani::any(), packet_window_base_id: kani::any(), frame_acks: Vec::new() }),
    }
}

fn state_class(c: &Client) -> u8 {
    match c.state { State::Pending(_) => 0, State::Active(_) => 1, State::Closing(_) => 2, State::Closed(_) => 3, State::Fin => 4 }
}

// ---- C07 ------------------------------------------------------------------------------------

//@h props=C07,C08,C06,C13 tier=quick timeout=900 role=client-handshake
//@fn Client::{handle_frame, handle_handshake_syn_ack}, frame::Frame::write (handshake ack)
//@bound Pending client with ANY nonce and ANY valid endpoint config; one SYN-ACK with every field any, at any time; then a second SYN-ACK with every field any
//@assume connection object = opaque model recording its Config; socket = ghost-logged model; crc::compute stubbed (constant)
#[kani::proof]
#[kani::unwind(5)]
#[kani::stub(crate::frame::serial::crc::compute, crate::frame::serial::verif_codec::crc_stub)]
fn o7_2_client_connects_only_on_matching_syn_ack() {
    let n: u32 = kani::any();
    let cfg = any_cfg();
    let mut c = mk_client(pending(n, any_time(), kani::any()), cfg.clone());
    let f = frame::HandshakeSynAckFrame { nonce_ack: kani::any(), nonce: kani::any(), max_receive_rate: kani::any(), max_packet_size: kani::any(), max_receive_alloc: kani::any() };
    let t1 = any_time();
    c.handle_frame(frame::Frame::HandshakeSynAckFrame(f.clone()), t1);
    let e = summarise(&c);
    if f.nonce_ack == n {
        assert!(e.n == 1 && e.connect == 1, "[C07,C08] exactly one Connect for a SYN-ACK echoing our nonce");
        assert!(state_class(&c) == 1);
        // the ACK written to the socket returns the server's nonce
        assert!(c.socket.sent_n() == 1);
        let s = c.socket.sent(0);
        assert!(s.len == 9 && s.head[0] == 2 && be32(&s.head, 1) == f.nonce, "[C07] the handshake ACK returns the server's nonce");
        // negotiated parameters handed to the connection
        let hc = match c.state { State::Active(ref st) => st.half_connection.config.clone().unwrap(), _ => panic!("not active") };
        assert!(unsafe { oq::NEW_COUNT } == 1);
        assert!(hc.tx_frame_base_id == n && hc.rx_frame_base_id == f.nonce, "[C07] frame ids start at the exchanged nonces");
        assert!(hc.tx_packet_base_id == (n & 0xFFFFF) && hc.rx_packet_base_id == (f.nonce & 0xFFFFF), "[C07] packet ids start at the exchanged nonces (20 bit)");
        assert!(hc.tx_bandwidth_limit == (cfg.max_send_rate as u32).min(f.max_receive_rate), "[C07,C13] rate ceiling = min(local max_send_rate, peer max_receive_rate)");
        assert!(hc.tx_alloc_limit == f.max_receive_alloc as usize && hc.rx_alloc_limit == cfg.max_receive_alloc, "[C07,C06] allocation limits: peer's for sending, ours for receiving");
        assert!(hc.tx_frame_window_size == 4096 && hc.rx_frame_window_size == 4096 && hc.tx_packet_window_size == 4096 && hc.rx_packet_window_size == 4096);
        assert!(hc.keepalive_interval_ms == if cfg.keepalive { Some(cfg.keepalive_interval_ms) } else { None });
    } else {
        assert!(e.n == 0 && state_class(&c) == 0 && c.socket.sent_n() == 0, "[C07] a SYN-ACK with another nonce is ignored");
    }
    // a second (duplicate, stale or forged) SYN-ACK never creates, resets or replaces the connection
    let connected = f.nonce_ack == n;
    let g = frame::HandshakeSynAckFrame { nonce_ack: kani::any(), nonce: kani::any(), max_receive_rate: kani::any(), max_packet_size: kani::any(), max_receive_alloc: kani::any() };
    let sent_before = c.socket.sent_n();
    c.handle_frame(frame::Frame::HandshakeSynAckFrame(g.clone()), any_time());
    let e2 = summarise(&c);
    if connected {
        assert!(e2.n == 1 && unsafe { oq::NEW_COUNT } == 1 && state_class(&c) == 1, "[C07,C08] a later SYN-ACK never produces a second Connect nor a new connection object");
        if g.nonce_ack == n {
            assert!(c.socket.sent_n() == sent_before + 1, "[C07] a repeated genuine SYN-ACK is only re-acknowledged");
        } else {
            assert!(c.socket.sent_n() == sent_before);
        }
    }
    kani::cover!(connected && g.nonce_ack == n, "duplicate SYN-ACK re-acked");
    std::mem::forget(c);
}

//@h props=C07,C08,C03 tier=quick timeout=900 role=client-pending-any-frame
//@fn Client::{handle_frame, handle_handshake_syn_ack, handle_handshake_error, handle_disconnect, handle_disconnect_ack, handle_data, handle_sync, handle_ack}
//@bound Pending client (nonce any, config any valid); ONE frame of any of the nine types with every field any (data/ack frames empty), at any time
//@assume opaque connection model; socket model; crc::compute stubbed
#[kani::proof]
#[kani::unwind(5)]
#[kani::stub(crate::frame::serial::crc::compute, crate::frame::serial::verif_codec::crc_stub)]
fn o7_2_client_pending_any_frame() {
    let n: u32 = kani::any();
    let mut c = mk_client(pending(n, any_time(), kani::any()), any_cfg());
    let f = any_frame();
    let genuine_syn_ack = matches!(f, frame::Frame::HandshakeSynAckFrame(ref s) if s.nonce_ack == n);
    let genuine_error = matches!(f, frame::Frame::HandshakeErrorFrame(ref s) if s.nonce_ack == n);
    let err_kind = if let frame::Frame::HandshakeErrorFrame(ref s) = f { Some(s.error.clone()) } else { None };
    c.handle_frame(f, any_time());
    let e = summarise(&c);
    if genuine_syn_ack {
        assert!(e.n == 1 && e.connect == 1 && state_class(&c) == 1);
    } else if genuine_error {
        assert!(e.n == 1 && e.error == 1 && state_class(&c) == 4, "[C07] a refusal echoing our nonce ends the attempt");
        match (&c.events_out[0], err_kind.unwrap()) {
            (Event::Error(ErrorType::Version), frame::HandshakeErrorType::Version) => (),
            (Event::Error(ErrorType::Config), frame::HandshakeErrorType::Config) => (),
            (Event::Error(ErrorType::ServerFull), frame::HandshakeErrorType::ServerFull) => (),
            _ => panic!("[C07] refusal reported with the wrong error type"),
        }
    } else {
        assert!(e.n == 0 && state_class(&c) == 0 && c.socket.sent_n() == 0 && unsafe { oq::NEW_COUNT } == 0,
                "[C07,C08] no other frame (forged nonce, stray type) creates a connection, an event or a reply while pending");
    }
    std::mem::forget(c);
}

// ---- C08: event grammar, one step from any lifecycle state -------------------------------------

fn any_state() -> State {
    let k: u8 = kani::any();
    kani::assume(k < 5);
    match k {
        0 => pending(kani::any(), any_time(), { let c: u8 = kani::any(); kani::assume(c <= 10); c }),
        1 => active(kani::any(), any_time(), { let s: u8 = kani::any(); kani::assume(s < 3); if s == 0 { None } else if s == 1 { Some(DisconnectMode::Now) } else { Some(DisconnectMode::Flush) } }),
        2 => State::Closing(ClosingState { request_bytes: Box::new([4u8, 0, 0, 0, 0]), resend_time_ms: any_time(), resend_count: { let c: u8 = kani::any(); kani::assume(c <= 10); c } }),
        3 => State::Closed(ClosedState { timeout_time_ms: any_time() }),
        _ => State::Fin,
    }
}

//@h props=C08,C03,C09 tier=quick timeout=1500 role=client-event-grammar
//@fn Client::{handle_frame and all frame handlers, handle_events, step_if_active, flush_if_active, send, disconnect, disconnect_now}
//@bound ONE operation from ANY lifecycle state (Pending/Active/Closing/Closed/Fin with all fields any, config any valid): any frame of the nine types (fields any) at any time, or a timer evaluation at any time, or any application call
//@assume opaque connection model (receive() delivers 0..1 packets per call); socket model; crc::compute stubbed
#[kani::proof]
#[kani::unwind(5)]
#[kani::stub(crate::frame::serial::crc::compute, crate::frame::serial::verif_codec::crc_stub)]
fn o8_1_client_event_grammar_step() {
    let mut c = mk_client(any_state(), any_cfg());
    let s0 = state_class(&c);
    let op: u8 = kani::any();
    kani::assume(op < 7);
    let now = any_time();
    match op {
        0 => c.handle_frame(any_frame(), now),
        1 => c.handle_events(now),
        2 => c.step_if_active(now),
        3 => c.flush_if_active(),
        4 => c.send(Box::new([1u8]), 0, SendMode::Reliable),
        5 => c.disconnect(),
        _ => c.disconnect_now(),
    }
    let s1 = state_class(&c);
    let e = summarise(&c);
    // monitor: None --Connect--> Connected --Receive*--> Connected --Disconnect|Error--> Terminated (nothing afterwards)
    match s0 {
        0 => {
            assert!(e.receive == 0 && e.disconnect == 0, "[C08] no Receive or Disconnect before Connect");
            assert!(e.n <= 1, "[C08] at most one event from a pending connection per operation");
            if e.connect == 1 { assert!(s1 == 1, "[C08] Connect means the connection is established"); }
            if e.error == 1 { assert!(s1 == 4, "[C08] nothing can follow an Error"); }
            if e.n == 0 { assert!(s1 == 0 || s1 == 4); }
        }
        1 => {
            assert!(e.connect == 0, "[C08] no second Connect on an established connection");
            assert!(e.disconnect + e.error <= 1 && !e.receive_after_other, "[C08] at most one terminal event, and nothing after it");
            if e.disconnect + e.error == 1 { assert!(e.last_is_terminal && (s1 == 3 || s1 == 4), "[C08] a terminal event ends the connection"); }
            else { assert!(s1 == 1 || s1 == 2, "[C08] without a terminal event the connection stays established or closing"); }
        }
        2 => {
            assert!(e.connect == 0 && e.receive == 0, "[C08] no Connect/Receive while closing");
            assert!(e.n <= 1);
            if e.n == 1 { assert!(s1 == 3 || s1 == 4, "[C08] a terminal event ends the connection"); } else { assert!(s1 == 2); }
        }
        _ => {
            assert!(e.n == 0, "[C08] nothing is reported after the terminal event");
            assert!(s1 == 3 || s1 == 4);
            if s0 == 4 { assert!(s1 == 4); }
        }
    }
    kani::cover!(s0 == 1 && e.receive == 1 && e.disconnect == 1, "Receive then Disconnect in one operation");
    kani::cover!(s0 == 1 && e.timeout == 1, "active timeout");
    kani::cover!(s0 == 2 && e.disconnect == 1, "closing ends with Disconnect");
    std::mem::forget(c);
}

// ---- C09 ------------------------------------------------------------------------------------

//@h props=C09,C08 tier=quick timeout=900 role=client-flush-gate
//@fn Client::step_if_active
//@bound Active client, disconnect signal in {none, Now, Flush}, is_send_pending() answers anything, receive() delivers 0..1 packets; time any
//@assume opaque connection model; socket model; crc::compute stubbed
#[kani::proof]
#[kani::unwind(5)]
#[kani::stub(crate::frame::serial::crc::compute, crate::frame::serial::verif_codec::crc_stub)]
fn o9_1_client_flush_gate() {
    let sig: u8 = kani::any();
    kani::assume(sig < 3);
    let mode = if sig == 0 { None } else if sig == 1 { Some(DisconnectMode::Now) } else { Some(DisconnectMode::Flush) };
    let mut c = mk_client(active(kani::any(), any_time(), mode), any_cfg());
    let now = any_time();
    c.step_if_active(now);
    let sent_disconnect = c.socket.sent_n() == 1 && c.socket.sent(0).head[0] == 4 && c.socket.sent(0).len == 5;
    let pending_answer = unsafe { oq::LAST_PENDING_ANSWER };
    if sig == 0 {
        assert!(c.socket.sent_n() == 0 && state_class(&c) == 1, "[C09] no Disconnect without a disconnect request");
        assert!(oq::count(oq::STEP) == 1 && oq::count(oq::RECEIVE) == 1);
    } else if sig == 1 {
        assert!(sent_disconnect && state_class(&c) == 2, "[C09] disconnect_now(): request transmitted in the next step");
    } else {
        assert!(oq::count(oq::PENDING_Q) == 1);
        if pending_answer {
            assert!(c.socket.sent_n() == 0 && state_class(&c) == 1, "[C09] disconnect(): no Disconnect frame while outbound data is pending");
            assert!(oq::count(oq::STEP) == 1, "[C09] the connection keeps being stepped while flushing");
        } else {
            assert!(sent_disconnect && state_class(&c) == 2, "[C09] disconnect(): request transmitted once nothing is pending");
        }
    }
    if sent_disconnect {
        // packets already received are handed over before the connection object is dropped
        assert!(oq::count(oq::RECEIVE) == 1, "[C09] received packets are drained before closing");
        if let State::Closing(ref s) = c.state {
            assert!(s.resend_time_ms == now + 2000 && s.resend_count == 10, "[C09,C10] retry budget: 10 resends, 2 s apart");
        }
    }
    let e = summarise(&c);
    assert!(e.disconnect == 0 && e.error == 0 && e.connect == 0);
    std::mem::forget(c);
}

//@h props=C09,C08 tier=quick timeout=900 role=client-disconnect-responder
//@fn Client::{handle_frame, handle_disconnect, handle_disconnect_ack}
//@bound Active or Closing client; a Disconnect or DisconnectAck frame at any time
//@assume opaque connection model; socket model; crc::compute stubbed
#[kani::proof]
#[kani::unwind(5)]
#[kani::stub(crate::frame::serial::crc::compute, crate::frame::serial::verif_codec::crc_stub)]
fn o9_3_client_peer_disconnect() {
    let is_active: bool = kani::any();
    let st = if is_active { active(kani::any(), any_time(), None) }
             else { State::Closing(ClosingState { request_bytes: Box::new([4u8, 0, 0, 0, 0]), resend_time_ms: any_time(), resend_count: kani::any() }) };
    let mut c = mk_client(st, any_cfg());
    let is_ack: bool = kani::any();
    let now = any_time();
    if is_ack { c.handle_frame(frame::Frame::DisconnectAckFrame(frame::DisconnectAckFrame {}), now); }
    else { c.handle_frame(frame::Frame::DisconnectFrame(frame::DisconnectFrame {}), now); }
    let e = summarise(&c);
    if !is_ack {
        assert!(e.disconnect == 1 && e.last_is_terminal && !e.receive_after_other, "[C09,C08] a Disconnect request ends the connection at once; nothing is delivered after it");
        assert!(c.socket.sent_n() == 1 && c.socket.sent(0).head[0] == 5, "[C09] the request is acknowledged");
        if is_active { assert!(oq::count(oq::RECEIVE) == 1, "[C09] packets received before the request are delivered before Disconnect"); }
        assert!(state_class(&c) == 3);
    } else if is_active {
        assert!(e.n == 0 && state_class(&c) == 1, "[C08] a stray DisconnectAck does not end an established connection");
    } else {
        assert!(e.n == 1 && e.disconnect == 1 && state_class(&c) == 4, "[C09] the acknowledgement completes our disconnect");
    }
    std::mem::forget(c);
}

// ---- C10 ------------------------------------------------------------------------------------

//@h props=C10 tier=quick timeout=1200 role=client-active-timeout
//@fn Client::{handle_frame, handle_handshake_syn_ack, handle_data, handle_sync, handle_ack, handle_events}
//@bound Pending client (config any valid, active_timeout_ms any < 2^40); genuine SYN-ACK at any time t1 (handshake of any duration); optionally one data/sync/ack frame at any t2 >= t1; timer evaluation at any t3 >= t2
//@assume opaque connection model; socket model; crc::compute stubbed
#[kani::proof]
#[kani::unwind(5)]
#[kani::stub(crate::frame::serial::crc::compute, crate::frame::serial::verif_codec::crc_stub)]
fn o10_1_client_active_timeout() {
    let n: u32 = kani::any();
    let cfg = any_cfg();
    let timeout = cfg.active_timeout_ms;
    let mut c = mk_client(pending(n, any_time(), kani::any()), cfg);
    let t1 = any_time();
    c.handle_frame(frame::Frame::HandshakeSynAckFrame(frame::HandshakeSynAckFrame { nonce_ack: n, nonce: kani::any(), max_receive_rate: kani::any(), max_packet_size: kani::any(), max_receive_alloc: kani::any() }), t1);
    assert!(state_class(&c) == 1);
    let mut last_rx = t1;
    let t2 = any_time();
    kani::assume(t2 >= t1);
    let k: u8 = kani::any();
    kani::assume(k < 4);
    if k == 1 { c.handle_frame(frame::Frame::DataFrame(frame::DataFrame { sequence_id: kani::any(), nonce: kani::any(), datagrams: Vec::new() }), t2); last_rx = t2; }
    if k == 2 { c.handle_frame(frame::Frame::SyncFrame(frame::SyncFrame { next_frame_id: None, next_packet_id: None }), t2); last_rx = t2; }
    if k == 3 { c.handle_frame(frame::Frame::AckFrame(frame::AckFrame { frame_window_base_id: kani::any(), packet_window_base_id: kani::any(), frame_acks: Vec::new() }), t2); last_rx = t2; }
    let t3 = any_time();
    kani::assume(t3 >= t2);
    c.events_out.clear();
    c.handle_events(t3);
    let e = summarise(&c);
    let silent = t3 - last_rx;
    if e.timeout == 1 {
        assert!(silent >= timeout, "[C10] timed out only after active_timeout_ms without any frame from the peer");
    }
    if silent >= timeout {
        assert!(e.timeout == 1 && state_class(&c) == 4, "[C10] reported within one step once that much silence has elapsed");
    }
    kani::cover!(e.timeout == 1 && k != 0, "timeout after a refreshed deadline");
    kani::cover!(e.timeout == 0 && t3 > t1, "still alive");
    std::mem::forget(c);
}

fn budget_step(closing: bool) {
    // One timer evaluation from ANY state of the retry schedule.  Representation invariant (established by the
    // code that enters the state: resend_time = first transmission + 2000, count = 10; and re-established by
    // every step, asserted below): resend_time_ms = last transmission + 2000, resend_count <= 10.
    // By induction over steps: the k-th resend happens >= 2000 ms after the (k-1)-th transmission, Error(Timeout)
    // needs resend_count == 0, i.e. exactly 10 resends, hence >= 22000 ms after the first transmission; and a
    // step at or past the current deadline never idles.
    let last_tx = any_time();
    let count: u8 = kani::any();
    kani::assume(count <= 10);
    let st = if closing { State::Closing(ClosingState { request_bytes: Box::new([4u8, 0, 0, 0, 0]), resend_time_ms: last_tx + 2000, resend_count: count }) }
             else { pending(kani::any(), last_tx + 2000, count) };
    let mut c = mk_client(st, any_cfg());
    let cls = if closing { 2 } else { 0 };
    let t = any_time();
    c.handle_events(t);
    let e = summarise(&c);
    let sent = c.socket.sent_n();
    assert!(sent <= 1 && e.n <= 1);
    if sent == 1 {
        assert!(t >= last_tx + 2000, "[C10,C09] retransmissions are at least 2 s apart");
        assert!(count >= 1 && e.n == 0 && state_class(&c) == cls, "[C10,C09] a resend consumes one unit of the budget");
        let (rt, rc) = match c.state { State::Closing(ref s) => (s.resend_time_ms, s.resend_count), State::Pending(ref s) => (s.resend_time_ms, s.resend_count), _ => (0, 0) };
        assert!(rt == t + 2000 && rc == count - 1, "[C10,C09] invariant re-established: next deadline 2 s after this transmission");
        assert!(c.socket.sent(0).len == if closing { 5 } else { 4 }, "[C10,C09] the stored request is what is resent");
    } else if e.n == 1 {
        assert!(e.timeout == 1 && state_class(&c) == 4);
        assert!(count == 0 && t >= last_tx + 2000, "[C10,C09] Error(Timeout) only when the whole budget of resends is used up and the last wait has elapsed");
    } else {
        assert!(state_class(&c) == cls);
        assert!(t < last_tx + 2000, "[C10,C09] a step at or past the deadline always resends or terminates");
    }
    kani::cover!(sent == 1, "resend");
    kani::cover!(e.timeout == 1, "budget exhausted");
    std::mem::forget(c);
}

//@h props=C10 tier=quick timeout=900 role=client-handshake-budget
//@fn Client::handle_events (Pending)
//@bound ONE timer evaluation at any time from ANY state of the handshake retry schedule (last transmission any, remaining resends 0..=10); the 10-step schedule follows by induction (prose)
//@assume socket model
#[kani::proof]
#[kani::unwind(5)]
fn o10_2_client_handshake_budget() { budget_step(false); }

//@h props=C09,C10 tier=quick timeout=900 role=client-disconnect-budget
//@fn Client::handle_events (Closing)
//@bound ONE timer evaluation at any time from ANY state of the disconnect retry schedule (last transmission any, remaining resends 0..=10); the 10-step schedule follows by induction (prose)
//@assume socket model
#[kani::proof]
#[kani::unwind(5)]
fn o9_4_client_disconnect_budget() { budget_step(true); }

// ---- the real step(): frames waiting in the socket are read before the timers are evaluated (C10) -------

//@h props=C10,C08 tier=quick timeout=900 role=client-real-step cbmc=--max-field-sensitivity-array-size+2048
//@fn Client::{step, flush_if_active, handle_frames, handle_frame, handle_sync, handle_events, step_if_active}, Frame::read
//@bound Active client (deadline any, config any valid with active_timeout_ms >= 1); ONE sync frame (14 bytes, no ids) waiting in the socket; clock reading any < 2^40 -- in particular at or past the deadline; one call of the real step()
//@assume clock behind now_ms() = a value set by the obligation; socket model with one queued datagram; opaque connection model; crc::compute stubbed
#[kani::proof]
#[kani::unwind(5)]
#[kani::stub(crate::frame::serial::crc::compute, crate::frame::serial::verif_codec::crc_stub)]
fn o10_4_client_step_reads_waiting_frames_before_timers() {
    unsafe { crate::frame::serial::verif_codec::CRC_STUB_VALUE = 0; }
    let cfg = any_cfg();
    kani::assume(cfg.active_timeout_ms >= 1);   // with a timeout of 0 ms "no frame during the preceding 0 ms" is vacuous
    let deadline = any_time();
    let mut c = mk_client(active(kani::any(), deadline, None), cfg.clone());
    // a keepalive sync frame from the peer: type 11, mode 0, two unused id fields, CRC (stub value 0)
    c.socket.queue_rx(&[11u8, 0, 0, 0, 0, 0, 0, 0, 0, 0, 0, 0, 0, 0], 10);
    let now = any_time();
    unsafe { env::CLOCK_MS = now; }
    let events = c.step();
    std::mem::forget(events);
    assert!(oq::count(oq::SYNC) == 1, "the waiting frame reached the connection");
    match c.state {
        State::Active(ref st) => assert!(st.timeout_time_ms == now + cfg.active_timeout_ms, "[C10] a received frame restarts the timeout"),
        _ => panic!("[C10] a connection whose peer's frame was waiting in the socket is reported as timed out (frames must be read before the deadline is checked)"),
    }
    kani::cover!(now >= deadline, "the deadline had passed when step() was called");
    std::mem::forget(c);
}

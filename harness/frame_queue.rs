//@file parent=src/half_connection/frame_queue.rs
// Sender-side frame log: only genuine, fresh acknowledgements change sender state (C15); hostile ack
// groups and window bases never crash it (C03); the transfer window reopens (C11).
use super::*;

use super::super::pending_packet::{PendingPacket, PendingPacketRc, FragmentRef as FRef};
use std::rc::Rc;
use std::cell::RefCell;

pub(crate) fn set_ids(fq: &mut FrameQueue, log_base: u32, next: u32, window_base: u32) {
    fq.frame_log.base_id = log_base;
    fq.frame_log.next_id = next;
    fq.window.base_id = window_base;
}

fn one_fragment_packet() -> PendingPacketRc {
    Rc::new(RefCell::new(PendingPacket::new(Box::new([9u8]), 0, 0, 0, 0)))
}

struct Snapshot { acked0: bool, acked1: bool, frag0: bool, frag1: bool, has_ack_data: bool, rb_base: u32, rb_count: u32, li_len: usize, li_front_len: u32, log_len: u32 }

fn snapshot(fq: &FrameQueue, p0: &PendingPacketRc, p1: &PendingPacketRc) -> Snapshot {
    Snapshot {
        acked0: fq.frame_log.frames.get(0).map_or(false, |f| f.acked),
        acked1: fq.frame_log.frames.get(1).map_or(false, |f| f.acked),
        frag0: p0.borrow().fragment_acknowledged(0),
        frag1: p1.borrow().fragment_acknowledged(0),
        has_ack_data: fq.feedback_gen.ack_data.is_some(),
        rb_base: crate::half_connection::reorder_buffer::verif_reorder_buffer::base_of(&fq.feedback_gen.reorder_buffer),
        rb_count: crate::half_connection::reorder_buffer::verif_reorder_buffer::count_of(&fq.feedback_gen.reorder_buffer),
        li_len: crate::half_connection::loss_rate::verif_loss_rate::len_of(&fq.feedback_gen.loss_intervals),
        li_front_len: crate::half_connection::loss_rate::verif_loss_rate::front_len_of(&fq.feedback_gen.loss_intervals),
        log_len: fq.frame_log.len(),
    }
}

fn same(a: &Snapshot, b: &Snapshot) -> bool {
    a.acked0 == b.acked0 && a.acked1 == b.acked1 && a.frag0 == b.frag0 && a.frag1 == b.frag1 && a.has_ack_data == b.has_ack_data
        && a.rb_base == b.rb_base && a.rb_count == b.rb_count && a.li_len == b.li_len && a.li_front_len == b.li_front_len && a.log_len == b.log_len
}

// two frames sent at base, base+1, each carrying one resendable fragment; nonces, sizes, send times any
fn two_frames(base: u32) -> (FrameQueue, PendingPacketRc, PendingPacketRc, bool, bool, u64) {
    let mut fq = FrameQueue::new(4, 4, base);
    let (p0, p1) = (one_fragment_packet(), one_fragment_packet());
    let (n0, n1): (bool, bool) = (kani::any(), kani::any());
    let t0: u64 = kani::any();
    let t1: u64 = kani::any();
    kani::assume(t0 <= t1 && t1 < 1 << 40);
    let (s0, s1): (u16, u16) = (kani::any(), kani::any());
    fq.push(s0 as usize, t0, Box::new([FRef::new(&p0, 0)]), n0);
    fq.push(s1 as usize, t1, Box::new([FRef::new(&p1, 0)]), n1);
    assert!(fq.next_id() == base.wrapping_add(2));
    (fq, p0, p1, n0, n1, t1)
}

fn gate(base: u32, ack_base_delta: u32, bitfield: u32, all_known: bool, claims0: bool, claims1: bool) -> (bool, bool) {
    let (mut fq, p0, p1, n0, n1, _t1) = two_frames(base);
    let before = snapshot(&fq, &p0, &p1);
    let ack_base = base.wrapping_add(ack_base_delta);
    let nonce: bool = kani::any();
    let rtt = if kani::any() { Some(kani::any::<u64>() & 0xFFFF) } else { None };
    fq.acknowledge_group(frame::AckGroup { base_id: ack_base, bitfield, nonce }, rtt);
    let after = snapshot(&fq, &p0, &p1);
    // reference (per shape, passed in): are all covered ids in the log, and which of the two frames are claimed
    let parity = (claims0 && n0) ^ (claims1 && n1);
    let genuine = all_known && parity == nonce;
    if !genuine {
        assert!(same(&before, &after), "[C15] an acknowledgement for unknown frames or with the wrong nonce parity has no effect at all");
    } else {
        assert!(after.acked0 == claims0 && after.acked1 == claims1, "[C15] exactly the claimed frames are acknowledged");
        assert!(after.frag0 == claims0 && after.frag1 == claims1, "[C15,C12] fragments carried by acknowledged frames are marked, others not");
        assert!(after.has_ack_data, "[C15] a genuine fresh acknowledgement feeds the rate controller");
    }
    std::mem::forget(fq); std::mem::forget(p0); std::mem::forget(p1);
    (genuine, all_known)
}

macro_rules! gate_shape {
    ($name:ident, $base:expr, $delta:expr, $bits:expr) => {
        #[kani::proof]
        #[kani::unwind(6)]
        fn $name() { let (genuine, _) = gate($base, $delta, $bits, false, false, false); kani::cover!(!genuine, "rejected"); }
    };
    ($name:ident, $base:expr, $delta:expr, $bits:expr, inside, $c0:expr, $c1:expr) => {
        #[kani::proof]
        #[kani::unwind(6)]
        fn $name() {
            let (genuine, all_known) = gate($base, $delta, $bits, true, $c0, $c1);
            kani::cover!(genuine, "genuine acknowledgement");
            kani::cover!(all_known && !genuine, "wrong nonce parity");
        }
    };
}

//@h props=C15,C03,C12 tier=quick timeout=1200 role=ack-gate unwindset=FrameQueue17acknowledge_group.0:34 cbmc=--max-field-sensitivity-array-size+512
//@fn FrameQueue::{push, acknowledge_group}, FrameLog::{get_frame, get_frame_mut}, FeedbackGen::{notify_ack, put_ack_data}, ReorderBuffer::put, PendingPacket::acknowledge_fragment
//@bound log of 2 frames at base 2^32-1 (second id wraps); ack group shape: base = log base, bitfield 0b11; group nonce, frame nonces, sizes, send times, RTT any
gate_shape!(o15_1_gate_both_frames, 0xFFFF_FFFF, 0, 0b11, inside, true, true);
//@h props=C15,C03,C12 tier=quick timeout=1200 role=ack-gate unwindset=FrameQueue17acknowledge_group.0:34
//@fn FrameQueue::{push, acknowledge_group}, FeedbackGen::{notify_ack, put_ack_data}, ReorderBuffer::put
//@bound log of 2 frames at base 7; ack group shape: base = log base + 1, bitfield 0b1 (second frame only); nonces etc. any
gate_shape!(o15_1_gate_second_frame_only, 7, 1, 0b1, inside, false, true);
//@h props=C15,C03 tier=quick timeout=1200 role=ack-gate unwindset=FrameQueue17acknowledge_group.0:34
//@fn FrameQueue::{push, acknowledge_group}
//@bound log of 2 frames at base 7; ack group shape: base = log base, bitfield 0b101 (covers an id that was never sent); nonces etc. any
gate_shape!(o15_1_gate_covers_unsent_frame, 7, 0, 0b101);
//@h props=C15,C03 tier=quick timeout=1200 role=ack-gate unwindset=FrameQueue17acknowledge_group.0:34
//@fn FrameQueue::{push, acknowledge_group}
//@bound log of 2 frames at base 0; ack group shape: base = log base - 1 (already forgotten / never sent), bitfield 0b11; nonces etc. any
gate_shape!(o15_1_gate_base_before_log, 0, 0xFFFF_FFFF, 0b11);
//@h props=C15,C03 tier=thorough timeout=1200 role=ack-gate unwindset=FrameQueue17acknowledge_group.0:34
//@fn FrameQueue::{push, acknowledge_group}
//@bound log of 2 frames at base 7; ack group shape: base = log base, bitfield 0b10 (first frame covered but not claimed); nonces etc. any
gate_shape!(o15_1_gate_gap_first_frame, 7, 0, 0b10, inside, false, true);
//@h props=C15,C03 tier=thorough timeout=1200 role=ack-gate unwindset=FrameQueue17acknowledge_group.0:34
//@fn FrameQueue::{push, acknowledge_group}
//@bound log of 2 frames at base 7; ack group shape: bitfield 0 (dud) and bitfield with only bit 31 set; nonces etc. any
gate_shape!(o15_1_gate_top_bit, 7, 0, 0x8000_0000);

struct Snap2 { acked0: bool, acked1: bool, has_ack_data: bool, rb_base: u32, rb_count: u32, li_len: usize, li_front_len: u32, log_len: u32 }
fn snap2(fq: &FrameQueue) -> Snap2 {
    Snap2 {
        acked0: fq.frame_log.frames.get(0).map_or(false, |f| f.acked),
        acked1: fq.frame_log.frames.get(1).map_or(false, |f| f.acked),
        has_ack_data: fq.feedback_gen.ack_data.is_some(),
        rb_base: crate::half_connection::reorder_buffer::verif_reorder_buffer::base_of(&fq.feedback_gen.reorder_buffer),
        rb_count: crate::half_connection::reorder_buffer::verif_reorder_buffer::count_of(&fq.feedback_gen.reorder_buffer),
        li_len: crate::half_connection::loss_rate::verif_loss_rate::len_of(&fq.feedback_gen.loss_intervals),
        li_front_len: crate::half_connection::loss_rate::verif_loss_rate::front_len_of(&fq.feedback_gen.loss_intervals),
        log_len: fq.frame_log.len(),
    }
}

fn replay_shape(pre_acked0: bool, pre_acked1: bool) {
    // Pre-state: a log of 2 frames of which some were acknowledged by an EARLIER group whose feedback has been
    // consumed (acked flag set, no pending ack data) - exactly what FrameQueue::acknowledge_group + get_feedback
    // leave behind (the flag is the only per-frame trace of an acknowledgement).
    let mut fq = FrameQueue::new(4, 4, 0xFFFF_FFFF);
    let (n0, n1): (bool, bool) = (kani::any(), kani::any());
    let (t0, t1): (u64, u64) = (kani::any(), kani::any());
    kani::assume(t0 <= t1 && t1 < 1 << 40);
    let (s0, s1): (u16, u16) = (kani::any(), kani::any());
    fq.push(s0 as usize, t0, Box::new([]), n0);
    fq.push(s1 as usize, t1, Box::new([]), n1);
    if pre_acked0 { fq.frame_log.frames.get_mut(0).unwrap().acked = true; }
    if pre_acked1 { fq.frame_log.frames.get_mut(1).unwrap().acked = true; }
    let before = snap2(&fq);
    let rtt = if kani::any() { Some(kani::any::<u64>() & 0xFFFF) } else { None };
    // a genuine group (right nonce parity) covering both frames arrives: duplicate / delayed replay / overlap
    fq.acknowledge_group(frame::AckGroup { base_id: 0xFFFF_FFFF, bitfield: 0b11, nonce: n0 ^ n1 }, rtt);
    let after = snap2(&fq);
    assert!(after.acked0 && after.acked1);
    if pre_acked0 && pre_acked1 {
        assert!(before.rb_base == after.rb_base && before.rb_count == after.rb_count && before.li_len == after.li_len
                && before.li_front_len == after.li_front_len && before.log_len == after.log_len,
                "[C15] a repeated copy of an earlier acknowledgement changes no acknowledgement, loss or reorder state");
        assert!(fq.feedback_gen.ack_data.is_none(), "[C15] a repeated copy of an earlier acknowledgement produces no RTT / receive-rate sample");
    } else {
        let fb = fq.feedback_gen.ack_data.take();
        assert!(fb.is_some(), "[C15] the fresh part of the group is acknowledged");
        let fb = fb.unwrap();
        // only newly acknowledged frames contribute to the sample
        let exp_t = if !pre_acked1 { t1 } else { t0 };
        let exp_s = (if !pre_acked0 { s0 as usize } else { 0 }) + (if !pre_acked1 { s1 as usize } else { 0 });
        assert!(fb.last_send_time_ms == exp_t, "[C15,C14] a repeated bit does not contribute to the RTT sample (only newly acknowledged frames do)");
        assert!(fb.total_ack_size == exp_s, "[C15,C14] a repeated bit does not contribute to the receive-rate sample");
    }
    std::mem::forget(fq);
}

//@h props=C15,C14 tier=quick timeout=1500 role=ack-replay unwindset=FrameQueue17acknowledge_group.0:34 cbmc=--max-field-sensitivity-array-size+512
//@fn FrameQueue::{push, acknowledge_group}, FeedbackGen::{put_ack_data, notify_ack}
//@bound log of 2 frames at base 2^32-1, BOTH already acknowledged by an earlier group (feedback consumed); the same genuine group arrives again
#[kani::proof]
#[kani::unwind(6)]
fn o15_2_replayed_ack_has_no_effect() { replay_shape(true, true); }

//@h props=C15,C14 tier=quick timeout=1500 role=ack-overlap unwindset=FrameQueue17acknowledge_group.0:34 cbmc=--max-field-sensitivity-array-size+512
//@fn FrameQueue::{push, acknowledge_group}, FeedbackGen::{put_ack_data, notify_ack}
//@bound log of 2 frames sent at any t0 <= t1; the SECOND (later) frame already acknowledged; a genuine group covering both arrives (one fresh bit, one repeated bit)
#[kani::proof]
#[kani::unwind(6)]
fn o15_2_overlapping_ack_counts_only_new_frames() { replay_shape(false, true); }

//@h props=C15,C14 tier=thorough timeout=1500 role=ack-overlap unwindset=FrameQueue17acknowledge_group.0:34
//@fn FrameQueue::{push, acknowledge_group}, FeedbackGen::{put_ack_data, notify_ack}
//@bound as above with the FIRST frame already acknowledged
#[kani::proof]
#[kani::unwind(6)]
fn o15_2_overlapping_ack_first_frame_repeated() { replay_shape(true, false); }

//@h props=C03,C15 tier=quick timeout=1200 role=ack-gate-clear-bit unwindset=FrameQueue17acknowledge_group.0:34
//@fn FrameQueue::{push, acknowledge_group}
//@bound log of 2 frames at base 7; ack group shape: base = log base - 1, bitfield 0b10 (the CLEAR bit 0 covers an id that is not in the log, the set bit 1 names the first sent frame); nonces etc. any
#[kani::proof]
#[kani::unwind(6)]
fn o15_1_gate_clear_bit_on_unknown_frame() {
    let (genuine, _) = gate(7, 0xFFFF_FFFF, 0b10, false, false, false);
    kani::cover!(!genuine, "rejected");
}

//@h props=C03,C11,C15 tier=quick timeout=1200 role=transfer-window also_quick=C15
//@fn FrameQueue::{push, can_push, advance_transfer_window, can_advance_transfer_window, cull_log_entries}, FeedbackGen::notify_advancement, ReorderBuffer::advance, FrameLog::drain
//@bound window 4 / tail 4 at base 2^32-2, FOUR frames pushed (window full); then the peer's frame window base = ANY u32
#[kani::proof]
#[kani::unwind(10)]
fn o11_3_transfer_window_any_base() {
    let base: u32 = 0xFFFF_FFFE;
    let mut fq = FrameQueue::new(4, 4, base);
    let mut i = 0;
    while i < 4 {
        assert!(fq.can_push());
        fq.push(10, i as u64, Box::new([]), kani::any());
        i += 1;
    }
    assert!(!fq.can_push(), "[C06] never more frames in flight than the window");
    let nb: u32 = kani::any();
    let rtt = if kani::any() { Some(kani::any::<u64>() & 0xFFFF) } else { None };
    fq.advance_transfer_window(nb, rtt);
    let d = nb.wrapping_sub(base);
    if d >= 1 && d <= 4 {
        assert!(fq.base_id() == nb && fq.can_push(), "[C11] an acknowledged window base within the frames sent reopens the transfer window");
    } else {
        assert!(fq.base_id() == base && !fq.can_push(), "[C03,C15] a window base behind us or beyond what was sent changes nothing");
    }
    assert!(fq.next_id() == base.wrapping_add(4));
    std::mem::forget(fq);
}

//@h props=C03 tier=quick timeout=1200 role=forget-frames
//@fn FrameQueue::{push, forget_frames, cull_log_entries}, FrameLog::{find_expiration_cutoff, drain}, FeedbackGen::notify_advancement, ReorderBuffer::advance
//@bound window 4 / tail 4 at base 2^32-2, three frames with any non-decreasing send times; forget_frames(threshold any)
#[kani::proof]
#[kani::unwind(10)]
fn o3_4_forget_frames_any_threshold() {
    let base: u32 = 0xFFFF_FFFE;
    let mut fq = FrameQueue::new(4, 4, base);
    let (t0, t1, t2): (u64, u64, u64) = (kani::any(), kani::any(), kani::any());
    kani::assume(t0 <= t1 && t1 <= t2 && t2 < 1 << 40);
    fq.push(10, t0, Box::new([]), kani::any());
    fq.push(10, t1, Box::new([]), kani::any());
    fq.push(10, t2, Box::new([]), kani::any());
    let th: u64 = kani::any();
    fq.forget_frames(th, if kani::any() { Some(kani::any::<u64>() & 0xFFFF) } else { None });
    let kept = fq.frame_log.len();
    let expect = (t0 >= th) as u32 + (t1 >= th) as u32 + (t2 >= th) as u32;
    assert!(kept == expect, "[C03] exactly the frames sent before the threshold are forgotten");
    assert!(fq.frame_log.base_id() == base.wrapping_add(3 - kept));
    std::mem::forget(fq);
}


impl FrameQueue {
    pub(crate) fn verif_nonce_of(&self, frame_id: u32) -> Option<bool> { self.frame_log.get_frame(frame_id).map(|e| e.nonce) }
    pub(crate) fn verif_acked(&self, frame_id: u32) -> Option<bool> { self.frame_log.get_frame(frame_id).map(|e| e.acked) }
}

//@h props=C15,C03,C11 tier=quick timeout=1200 role=transfer-window-partial
//@fn FrameQueue::{push, can_push, can_advance_transfer_window, advance_transfer_window}
//@bound transfer window of 4 with only TWO frames sent (ids 2^32-2, 2^32-1); the peer's frame window base in an ack frame is ANY u32
#[kani::proof]
#[kani::unwind(6)]
fn o15_3_transfer_window_never_passes_frames_never_sent() {
    let base: u32 = 0xFFFF_FFFE;
    let mut fq = FrameQueue::new(4, 4, base);
    fq.push(10, 0, Box::new([]), kani::any());
    fq.push(10, 1, Box::new([]), kani::any());
    let nb: u32 = kani::any();
    let rtt = if kani::any() { Some(kani::any::<u64>() & 0xFFFF) } else { None };
    fq.advance_transfer_window(nb, rtt);
    let d = nb.wrapping_sub(base);
    if d >= 1 && d <= 2 {
        assert!(fq.base_id() == nb, "[C11] a window base within the frames sent is accepted");
    } else {
        assert!(fq.base_id() == base, "[C15,C03] a window base that acknowledges frames never sent (or lies behind us) changes nothing");
    }
    assert!(fq.next_id().wrapping_sub(fq.base_id()) <= 2 && fq.can_push(), "[C15,C11] the window base never overtakes the next frame id: the sender can always go on");
    assert!(fq.next_id() == 0);
    std::mem::forget(fq);
}

//@file parent=src/half_connection/reorder_buffer.rs
// ReorderBuffer (NDUPACK=3 loss detection on the sender): one step from any valid state.
use super::*;

// representation invariant (the debug_asserts of put/advance plus what put itself maintains)
fn valid(rb: &ReorderBuffer) -> bool {
    if rb.frame_count > 2 { return false; }
    let d0 = rb.frames[0].wrapping_sub(rb.base_id);
    let d1 = rb.frames[1].wrapping_sub(rb.base_id);
    if rb.frame_count >= 1 && !(d0 >= 1 && d0 < rb.max_span) { return false; }
    if rb.frame_count == 2 && !(d1 > d0 && d1 < rb.max_span) { return false; }
    true
}

fn any_rb(max_span: u32) -> ReorderBuffer {
    let rb = ReorderBuffer { frames: [kani::any(), kani::any()], frame_count: kani::any(), base_id: kani::any(), max_span };
    kani::assume(valid(&rb));
    rb
}

//@h props=C03,C15,C14 tier=quick timeout=600 role=reorder-step
//@fn ReorderBuffer::{can_put, put}
//@bound one put from ANY valid state with max_span = 8 (loop trip count <= span); frame id any u32 passing can_put and not already buffered; base any (wrap included)
#[kani::proof]
#[kani::unwind(10)]
fn o3_5_reorder_put_step() {
    let mut rb = any_rb(8);
    let base0 = rb.base_id;
    let id: u32 = kani::any();
    kani::assume(rb.can_put(id));
    // the caller (FrameQueue::acknowledge_group) calls put at most once per frame (acked flag)
    kani::assume(!(rb.frame_count >= 1 && rb.frames[0] == id) && !(rb.frame_count == 2 && rb.frames[1] == id));
    let mut calls: u32 = 0;
    let mut acks: u32 = 0;
    let mut last: u32 = base0.wrapping_sub(1);
    let mut ordered = true;
    rb.put(id, |fid, seen| {
        calls += 1;
        if seen { acks += 1; }
        if fid != last.wrapping_add(1) { ordered = false; }
        last = fid;
    });
    assert!(valid(&rb), "[C03] representation invariant preserved");
    // callbacks enumerate exactly the ids the base moved over, in order, each once
    assert!(ordered && calls == rb.base_id.wrapping_sub(base0), "[C14,C15] every id below the new base reported exactly once, in order");
    assert!(calls <= 8 + 2);
    kani::cover!(calls > acks, "a nack is generated");
    kani::cover!(rb.base_id < base0, "base wraps");
}

//@h props=C03,C15,C14 tier=quick timeout=600 role=reorder-step
//@fn ReorderBuffer::{can_advance, advance}
//@bound one advance from ANY valid state with max_span = 8; new base any u32 passing can_advance
#[kani::proof]
#[kani::unwind(12)]
fn o3_5_reorder_advance_step() {
    let mut rb = any_rb(8);
    let base0 = rb.base_id;
    let nb: u32 = kani::any();
    kani::assume(rb.can_advance(nb));
    let mut calls: u32 = 0;
    let mut last: u32 = base0.wrapping_sub(1);
    let mut ordered = true;
    rb.advance(nb, |fid, _seen| {
        calls += 1;
        if fid != last.wrapping_add(1) { ordered = false; }
        last = fid;
    });
    assert!(valid(&rb), "[C03] representation invariant preserved");
    assert!(ordered && calls == rb.base_id.wrapping_sub(base0), "[C14,C15] every id below the new base reported exactly once, in order");
    assert!(rb.base_id.wrapping_sub(nb) <= 2, "[C03] base ends at the requested id or just past buffered ids adjacent to it");
}

pub(crate) fn base_of(rb: &ReorderBuffer) -> u32 { rb.base_id }
pub(crate) fn count_of(rb: &ReorderBuffer) -> u32 { rb.frame_count }

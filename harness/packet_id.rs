//@file parent=src/packet_id.rs
// Pure integer facts about the 20-bit packet id arithmetic, at full width.
use super::*;

//@h props=C01,C05 tier=quick timeout=120 role=id-arith
//@fn packet_id::add, packet_id::sub, packet_id::is_valid
//@bound none: all (a,b) in u32 x u32
#[kani::proof]
fn o1_1_id_roundtrip() {
    let a: u32 = kani::any();
    let b: u32 = kani::any();
    // results are always valid ids, whatever the operands
    assert!(is_valid(add(a, b)));
    assert!(is_valid(sub(a, b)));
    if is_valid(a) && b < SPAN {
        assert!(sub(add(a, b), a) == b);
        assert!(add(sub(a, b), b) == a);
        kani::cover!(add(a, b) < a, "wraps");
    }
    if is_valid(a) {
        assert!(add(a, 0) == a);
        assert!(sub(a, a) == 0);
    }
}

//@h props=C01,C06 tier=quick timeout=120 role=id-arith
//@fn packet_id::sub
//@bound none: all valid ids, all window sizes 2^k <= 4096
#[kani::proof]
fn o1_1_id_window_membership() {
    // sub(x, base) < W holds exactly for the W ids base, base+1, ..., base+W-1 (mod 2^20):
    // distinct ids inside one window have distinct offsets, and the offset recovers the id.
    let base: u32 = kani::any();
    let x: u32 = kani::any();
    let y: u32 = kani::any();
    let k: u32 = kani::any();
    kani::assume(k <= 12);
    let w = 1u32 << k;
    kani::assume(is_valid(base) && is_valid(x) && is_valid(y));
    let dx = sub(x, base);
    let dy = sub(y, base);
    if dx < w && dy < w {
        assert!((dx == dy) == (x == y));
        assert!(add(base, dx) == x);
        // slot index used by both windows: id & (W-1) is injective on the window
        assert!(((x & (w - 1)) == (y & (w - 1))) == (x == y));
    }
    kani::cover!(dx < w && x < base, "window spans the 2^20 wrap");
}

//@h props=C01 tier=quick timeout=120 role=id-arith
//@fn u32::wrapping_sub (frame ids)
//@bound none: all u32
#[kani::proof]
fn o1_1_frame_id_window_membership() {
    let base: u32 = kani::any();
    let x: u32 = kani::any();
    let y: u32 = kani::any();
    let k: u32 = kani::any();
    kani::assume(k <= 13);
    let w = 1u32 << k;
    let dx = x.wrapping_sub(base);
    let dy = y.wrapping_sub(base);
    if dx < w && dy < w {
        assert!((dx == dy) == (x == y));
        assert!(base.wrapping_add(dx) == x);
    }
    kani::cover!(dx < w && x < base, "window spans the 2^32 wrap");
}

//@file parent=src/frame/serial/mod.rs
// Frame codec: round trips, exact-length acceptance, no panic on arbitrary bytes, CRC gate.
use super::*;

pub(crate) static mut CRC_STUB_VALUE: u32 = 0;
pub(crate) static mut CRC_STUB_LEN: usize = usize::MAX;
pub(crate) static mut CRC_STUB_CALLS: u32 = 0;

// Stand-in for crc::compute in the obligations that are not about the strength of the CRC:
// an uninterpreted constant (any u32, fixed per run) that records the length it was applied to.
pub(crate) fn crc_stub(data: &[u8]) -> u32 {
    unsafe {
        CRC_STUB_LEN = data.len();
        CRC_STUB_CALLS += 1;
        CRC_STUB_VALUE
    }
}

fn trailer(b: &[u8]) -> u32 {
    let n = b.len();
    ((b[n - 4] as u32) << 24) | ((b[n - 3] as u32) << 16) | ((b[n - 2] as u32) << 8) | (b[n - 1] as u32)
}

// ---- O16.1-6: scalar frames, real CRC ------------------------------------------------------

//@h props=C16,C07 tier=quick timeout=300 role=codec-roundtrip cbmc=--max-field-sensitivity-array-size+512
//@fn Frame::write, Frame::read, write_handshake_syn_ack, read_handshake_syn_ack_payload, crc::compute
//@bound none on fields (5 x u32 any); frame length fixed by the format (25 bytes)
//@assume crc::compute replaced by an uninterpreted constant function (glue asserted: trailer == compute(prefix), big-endian)
#[kani::proof]
#[kani::unwind(3)]
#[kani::stub(crate::frame::serial::crc::compute, crate::frame::serial::verif_codec::crc_stub)]
fn o16_2_roundtrip_syn_ack() {
    unsafe { CRC_STUB_VALUE = kani::any(); }
    let f = HandshakeSynAckFrame { nonce_ack: kani::any(), nonce: kani::any(), max_receive_rate: kani::any(),
                                   max_packet_size: kani::any(), max_receive_alloc: kani::any() };
    let bytes = Frame::HandshakeSynAckFrame(f.clone()).write();
    assert!(bytes.len() == 25);
    assert!(unsafe { CRC_STUB_LEN } == 21 && trailer(&bytes) == unsafe { CRC_STUB_VALUE });
    match Frame::read(&bytes) {
        Some(Frame::HandshakeSynAckFrame(g)) => {
            assert!(g.nonce_ack == f.nonce_ack && g.nonce == f.nonce && g.max_receive_rate == f.max_receive_rate
                    && g.max_packet_size == f.max_packet_size && g.max_receive_alloc == f.max_receive_alloc);
        }
        _ => panic!("round trip lost the frame"),
    }
}

//@h props=C16,C07 tier=quick timeout=300 role=codec-roundtrip
//@fn Frame::write, Frame::read, write_handshake_ack, write_handshake_error, write_disconnect, write_disconnect_ack, write_sync and their readers, crc::compute
//@bound none on fields; lengths fixed by the format (5..14 bytes)
//@assume crc::compute replaced by an uninterpreted constant function (glue asserted: trailer == compute(prefix), big-endian)
#[kani::proof]
#[kani::unwind(3)]
#[kani::stub(crate::frame::serial::crc::compute, crate::frame::serial::verif_codec::crc_stub)]
fn o16_3_roundtrip_small_scalar_frames() {
    unsafe { CRC_STUB_VALUE = kani::any(); }
    let which: u8 = kani::any();
    kani::assume(which < 5);
    if which == 0 {
        let n: u32 = kani::any();
        let bytes = Frame::HandshakeAckFrame(HandshakeAckFrame { nonce_ack: n }).write();
        assert!(bytes.len() == 9 && unsafe { CRC_STUB_LEN } == 5 && trailer(&bytes) == unsafe { CRC_STUB_VALUE });
        match Frame::read(&bytes) { Some(Frame::HandshakeAckFrame(g)) => assert!(g.nonce_ack == n), _ => panic!("lost") }
    } else if which == 1 {
        let n: u32 = kani::any();
        let e: u8 = kani::any();
        kani::assume(e < 3);
        let err = if e == 0 { HandshakeErrorType::Version } else if e == 1 { HandshakeErrorType::Config } else { HandshakeErrorType::ServerFull };
        let bytes = Frame::HandshakeErrorFrame(HandshakeErrorFrame { nonce_ack: n, error: err.clone() }).write();
        assert!(bytes.len() == 10 && unsafe { CRC_STUB_LEN } == 6 && trailer(&bytes) == unsafe { CRC_STUB_VALUE });
        match Frame::read(&bytes) { Some(Frame::HandshakeErrorFrame(g)) => assert!(g.nonce_ack == n && g.error == err), _ => panic!("lost") }
    } else if which == 2 {
        let bytes = Frame::DisconnectFrame(DisconnectFrame {}).write();
        assert!(bytes.len() == 5 && unsafe { CRC_STUB_LEN } == 1 && trailer(&bytes) == unsafe { CRC_STUB_VALUE });
        match Frame::read(&bytes) { Some(Frame::DisconnectFrame(_)) => (), _ => panic!("lost") }
    } else if which == 3 {
        let bytes = Frame::DisconnectAckFrame(DisconnectAckFrame {}).write();
        assert!(bytes.len() == 5 && unsafe { CRC_STUB_LEN } == 1 && trailer(&bytes) == unsafe { CRC_STUB_VALUE });
        match Frame::read(&bytes) { Some(Frame::DisconnectAckFrame(_)) => (), _ => panic!("lost") }
    } else {
        let a: Option<u32> = if kani::any() { Some(kani::any()) } else { None };
        let b: Option<u32> = if kani::any() { Some(kani::any()) } else { None };
        let bytes = Frame::SyncFrame(SyncFrame { next_frame_id: a, next_packet_id: b }).write();
        assert!(bytes.len() == 14 && unsafe { CRC_STUB_LEN } == 10 && trailer(&bytes) == unsafe { CRC_STUB_VALUE });
        match Frame::read(&bytes) { Some(Frame::SyncFrame(g)) => assert!(g.next_frame_id == a && g.next_packet_id == b), _ => panic!("lost") }
    }
}

//@h props=C16,C07,C18 tier=quick timeout=600 role=codec-roundtrip cbmc=--max-field-sensitivity-array-size+512
//@fn Frame::write, Frame::read, write_handshake_syn, read_handshake_syn_payload
//@bound none on fields; frame is exactly 1472 bytes
//@assume crc::compute replaced by an uninterpreted constant function (strength of the CRC is decided separately by the crc lemmas)
#[kani::proof]
#[kani::unwind(3)]
#[kani::stub(crate::frame::serial::crc::compute, crate::frame::serial::verif_codec::crc_stub)]
fn o16_1_roundtrip_syn() {
    unsafe { CRC_STUB_VALUE = kani::any(); }
    let f = HandshakeSynFrame { version: kani::any(), nonce: kani::any(), max_receive_rate: kani::any(),
                                max_packet_size: kani::any(), max_receive_alloc: kani::any() };
    let bytes = Frame::HandshakeSynFrame(f.clone()).write();
    assert!(bytes.len() == 1472);
    // the CRC is computed over everything but the trailer and stored big-endian in the trailer
    assert!(unsafe { CRC_STUB_LEN } == 1468);
    assert!(trailer(&bytes) == unsafe { CRC_STUB_VALUE });
    match Frame::read(&bytes) {
        Some(Frame::HandshakeSynFrame(g)) => {
            assert!(g.version == f.version && g.nonce == f.nonce && g.max_receive_rate == f.max_receive_rate
                    && g.max_packet_size == f.max_packet_size && g.max_receive_alloc == f.max_receive_alloc);
        }
        _ => panic!("round trip lost the frame"),
    }
}

// ---- O16.11e: the CRC gate of Frame::read ---------------------------------------------------

//@h props=C16,C01,C03 tier=quick timeout=600 role=crc-gate
//@fn Frame::read
//@bound input length any in 0..=24 bytes (symbolic); contents any
//@assume crc::compute replaced by an uninterpreted constant function returning any u32
#[kani::proof]
#[kani::unwind(5)]
#[kani::stub(crate::frame::serial::crc::compute, crate::frame::serial::verif_codec::crc_stub)]
fn o16_11e_crc_gate() {
    let v: u32 = kani::any();
    unsafe { CRC_STUB_VALUE = v; CRC_STUB_LEN = usize::MAX; CRC_STUB_CALLS = 0; }
    let buf: [u8; 24] = kani::any();
    let n: usize = kani::any();
    kani::assume(n <= 24);
    let b = &buf[..n];
    let r = Frame::read(b);
    if n < 5 {
        assert!(r.is_none());
    } else {
        // compute is applied to exactly the bytes before the trailer, and a mismatch rejects the frame
        assert!(unsafe { CRC_STUB_LEN } == n - 4);
        if trailer(b) != v {
            assert!(r.is_none());
        }
    }
    kani::cover!(r.is_some(), "some frame is accepted");
    std::mem::forget(r);
}

//@h props=C16 tier=quick timeout=300 role=codec-roundtrip
//@fn Frame::write, Frame::read, crc::compute (real), write_disconnect, write_handshake_ack
//@bound the two shortest frame types (5 and 9 bytes) with the real CRC end to end
#[kani::proof]
#[kani::unwind(11)]
fn o16_5_roundtrip_real_crc_short_frames() {
    let bytes = Frame::DisconnectFrame(DisconnectFrame {}).write();
    match Frame::read(&bytes) { Some(Frame::DisconnectFrame(_)) => (), _ => panic!("lost") }
    let n: u32 = kani::any();
    let bytes = Frame::HandshakeAckFrame(HandshakeAckFrame { nonce_ack: n }).write();
    match Frame::read(&bytes) { Some(Frame::HandshakeAckFrame(g)) => assert!(g.nonce_ack == n), _ => panic!("lost") }
    // a flipped trailer bit is rejected (real CRC compare)
    let mut bad: [u8; 9] = [0; 9];
    let mut i = 0;
    while i < 9 { bad[i] = bytes[i]; i += 1; }
    let k: usize = kani::any();
    kani::assume(k < 9);
    let bit: u8 = kani::any();
    kani::assume(bit < 8);
    bad[k] ^= 1 << bit;
    assert!(Frame::read(&bad).is_none());
}

// ---- O16.7: data frames ---------------------------------------------------------------------

fn any_datagram(len: usize, fragmented: bool) -> Datagram {
    let sequence_id: u32 = kani::any();
    kani::assume(sequence_id <= 0xFFFFF);
    let channel_id: u8 = kani::any();
    kani::assume((channel_id as usize) < MAX_CHANNELS);
    let (fragment_id, fragment_id_last) = if fragmented {
        let l: u16 = kani::any();
        let f: u16 = kani::any();
        kani::assume(f <= l);
        (f, l)
    } else { (0, 0) };
    let mut data = vec![0x5Au8; len];
    if len > 0 {
        let i: usize = kani::any();
        kani::assume(i < len);
        data[i] = kani::any();
    }
    Datagram { sequence_id, channel_id, window_parent_lead: kani::any(), channel_parent_lead: kani::any(),
               fragment_id, fragment_id_last, data: data.into_boxed_slice() }
}

fn same_datagram(a: &Datagram, b: &Datagram) {
    assert!(a.sequence_id == b.sequence_id);
    assert!(a.channel_id == b.channel_id);
    assert!(a.window_parent_lead == b.window_parent_lead);
    assert!(a.channel_parent_lead == b.channel_parent_lead);
    assert!(a.fragment_id == b.fragment_id);
    assert!(a.fragment_id_last == b.fragment_id_last);
    assert!(a.data.len() == b.data.len());
    if a.data.len() > 0 {
        let i: usize = kani::any();
        kani::assume(i < a.data.len());
        assert!(a.data[i] == b.data[i]);
    }
}

fn roundtrip_one_datagram(len: usize, fragmented: bool) {
    // write side: DataFrameBuilder (what write_data and the emitter use); read side: read_datagram on
    // the datagram region (read_data_payload = header + repeated read_datagram + exact-length test,
    // decided on arbitrary bytes by o16_10 and on whole frames by o16_7_roundtrip_*_frame).
    unsafe { CRC_STUB_VALUE = kani::any(); }
    let d = any_datagram(len, fragmented);
    let sequence_id: u32 = kani::any();
    let nonce: bool = kani::any();
    let mut b = DataFrameBuilder::new(sequence_id, nonce);
    let enc = DataFrameBuilder::encoded_size(&(&d).into());
    let size0 = b.size();
    b.add(&(&d).into());
    assert!(b.size() == size0 + enc && b.count() == 1);
    let bytes = b.build();
    // selected encoding: exactly encoded_size bytes are appended; the smallest class that can represent the datagram
    assert!(bytes.len() == DATA_FRAME_OVERHEAD + enc);
    let unfrag = d.fragment_id_last == 0;
    let micro = unfrag && len < 64 && d.window_parent_lead < 128 && d.channel_parent_lead < 256;
    let small = unfrag && len < 256;
    assert!(enc == len + if micro { 6 } else if small { 9 } else { 14 });
    assert!(unsafe { CRC_STUB_LEN } == bytes.len() - 4 && trailer(&bytes) == unsafe { CRC_STUB_VALUE });
    if len <= crate::MAX_FRAGMENT_SIZE { assert!(bytes.len() <= MAX_FRAME_SIZE); }
    // frame header: type, big-endian sequence id, nonce bit, count
    assert!(bytes[0] == DATA_FRAME_ID);
    assert!(((bytes[1] as u32) << 24 | (bytes[2] as u32) << 16 | (bytes[3] as u32) << 8 | bytes[4] as u32) == sequence_id);
    assert!((bytes[5] & 0x80 != 0) == nonce && (bytes[5] & 0x7F) == 1);
    match read_datagram(&bytes[6 .. bytes.len() - 4]) {
        Some((g, used)) => {
            assert!(used == enc);
            same_datagram(&g, &d);
            // vacuity witnesses: every encoding class this length can select is exercised
            kani::cover!(if len < 64 { micro } else { true }, "micro encoding where representable");
            kani::cover!(if len < 256 { !micro && small } else { true }, "small encoding where representable");
            kani::cover!(if fragmented || len >= 256 { !micro && !small } else { true }, "large encoding where selected");
            std::mem::forget(g);
        }
        None => panic!("round trip lost the datagram"),
    }
    std::mem::forget(d);
    std::mem::forget(bytes);
}

macro_rules! rt_datagram {
    ($name:ident, $len:expr, $frag:expr) => {
        #[kani::proof]
        #[kani::unwind(3)]
        #[kani::stub(crate::frame::serial::crc::compute, crate::frame::serial::verif_codec::crc_stub)]
        fn $name() { roundtrip_one_datagram($len, $frag); }
    };
}

//@h props=C16,C04 tier=quick timeout=600 role=codec-roundtrip
//@fn DataFrameBuilder::{new,add,build,encoded_size,size,count}, read_datagram
//@bound one datagram, payload length 0, unfragmented; every header field any (ids 20 bit, channel < 64, leads u16)
//@assume crc::compute replaced by an uninterpreted constant function
rt_datagram!(o16_7_roundtrip_datagram_len0, 0, false);
//@h props=C16,C04 tier=thorough timeout=1500 role=codec-roundtrip
//@fn DataFrameBuilder::{new,add,build,encoded_size,size,count}, read_datagram
//@bound one datagram, payload length 63 (last micro length), one symbolic byte at a symbolic offset
//@assume crc::compute replaced by an uninterpreted constant function
rt_datagram!(o16_7_roundtrip_datagram_len63, 63, false);
//@h props=C16,C04 tier=quick timeout=600 role=codec-roundtrip cbmc=--max-field-sensitivity-array-size+512
//@fn DataFrameBuilder::{new,add,build,encoded_size,size,count}, read_datagram
//@bound one datagram, payload length 64 (first small length)
//@assume crc::compute replaced by an uninterpreted constant function
rt_datagram!(o16_7_roundtrip_datagram_len64, 64, false);
//@h props=C16,C04 tier=quick timeout=600 role=codec-roundtrip
//@fn DataFrameBuilder::{new,add,build,encoded_size,size,count}, read_datagram
//@bound one datagram, payload length 255 (last small length)
//@assume crc::compute replaced by an uninterpreted constant function
rt_datagram!(o16_7_roundtrip_datagram_len255, 255, false);
//@h props=C16,C04 tier=quick timeout=600 role=codec-roundtrip
//@fn DataFrameBuilder::{new,add,build,encoded_size,size,count}, read_datagram
//@bound one datagram, payload length 256 (first large length)
//@assume crc::compute replaced by an uninterpreted constant function
rt_datagram!(o16_7_roundtrip_datagram_len256, 256, false);
//@h props=C16,C04 tier=quick timeout=600 role=codec-roundtrip
//@fn DataFrameBuilder::{new,add,build,encoded_size,size,count}, read_datagram
//@bound one datagram, payload length 1448 (a full fragment), fragment id/last any with id <= last: frame is exactly 1472 bytes
//@assume crc::compute replaced by an uninterpreted constant function
rt_datagram!(o16_7_roundtrip_datagram_frag1448, 1448, true);
//@h props=C16,C04 tier=quick timeout=600 role=codec-roundtrip also_quick=C04
//@fn DataFrameBuilder::{new,add,build,encoded_size,size,count}, read_datagram
//@bound one datagram, payload length 1 fragmented (last fragment of a multi-fragment packet)
//@assume crc::compute replaced by an uninterpreted constant function
rt_datagram!(o16_7_roundtrip_datagram_frag1, 1, true);
//@h props=C16,C04 tier=thorough timeout=600 role=codec-roundtrip
//@fn DataFrameBuilder::{new,add,build,encoded_size,size,count}, read_datagram
//@bound one datagram, payload length 1448 unfragmented
//@assume crc::compute replaced by an uninterpreted constant function
rt_datagram!(o16_7_roundtrip_datagram_len1448, 1448, false);
//@h props=C16,C04 tier=thorough timeout=600 role=codec-roundtrip
//@fn DataFrameBuilder::{new,add,build,encoded_size,size,count}, read_datagram
//@bound one datagram, payload length 1
//@assume crc::compute replaced by an uninterpreted constant function
rt_datagram!(o16_7_roundtrip_datagram_len1, 1, false);

//@h props=C16 tier=quick timeout=900 role=codec-roundtrip cbmc=--max-field-sensitivity-array-size+512
//@fn DataFrameBuilder::{new,add,build}, read_datagram
//@bound two datagrams in one frame: a 2-byte micro datagram (leads fixed to 5/9 so that the class and hence the offset is concrete) followed by a 0-byte fragment (large class, last fragment id >= 1); ids, channels, fragment ids, payload bytes any
//@assume crc::compute replaced by an uninterpreted constant function
#[kani::proof]
#[kani::unwind(4)]
#[kani::stub(crate::frame::serial::crc::compute, crate::frame::serial::verif_codec::crc_stub)]
fn o16_7_roundtrip_two_datagrams() {
    unsafe { CRC_STUB_VALUE = kani::any(); }
    let mut d0 = any_datagram(2, false);
    d0.window_parent_lead = 5;
    d0.channel_parent_lead = 9;
    let mut d1 = any_datagram(0, false);
    d1.fragment_id_last = 0x0102;
    d1.fragment_id = kani::any();
    kani::assume(d1.fragment_id <= d1.fragment_id_last);
    let mut b = DataFrameBuilder::new(kani::any(), kani::any());
    b.add(&(&d0).into());
    b.add(&(&d1).into());
    assert!(b.count() == 2);
    let bytes = b.build();
    assert!((bytes[5] & 0x7F) == 2);
    let e0 = DataFrameBuilder::encoded_size(&(&d0).into());
    let e1 = DataFrameBuilder::encoded_size(&(&d1).into());
    assert!(bytes.len() == 10 + e0 + e1);
    match read_datagram(&bytes[6 .. bytes.len() - 4]) {
        Some((g, used)) => { assert!(used == e0); same_datagram(&g, &d0); std::mem::forget(g); }
        None => panic!("lost first datagram"),
    }
    match read_datagram(&bytes[6 + e0 .. bytes.len() - 4]) {
        Some((g, used)) => { assert!(used == e1); same_datagram(&g, &d1); std::mem::forget(g); }
        None => panic!("lost second datagram"),
    }
    std::mem::forget(d0); std::mem::forget(d1); std::mem::forget(bytes);
}

//@h props=C16 tier=thorough timeout=1500 role=codec-roundtrip
//@fn DataFrameBuilder::{new,add,build}, read_data_payload, read_datagram
//@bound whole-frame round trip: one 1-byte datagram of any class through read_data_payload (header, count loop, Vec of datagrams, exact length)
//@assume crc::compute replaced by an uninterpreted constant function
#[kani::proof]
#[kani::unwind(3)]
#[kani::stub(crate::frame::serial::crc::compute, crate::frame::serial::verif_codec::crc_stub)]
fn o16_7_roundtrip_one_datagram_frame() {
    unsafe { CRC_STUB_VALUE = kani::any(); }
    let d = any_datagram(1, false);
    let sequence_id: u32 = kani::any();
    let nonce: bool = kani::any();
    let mut b = DataFrameBuilder::new(sequence_id, nonce);
    b.add(&(&d).into());
    let bytes = b.build();
    match read_data_payload(&bytes[1 .. bytes.len() - 4]) {
        Some(Frame::DataFrame(g)) => {
            assert!(g.sequence_id == sequence_id && g.nonce == nonce && g.datagrams.len() == 1);
            same_datagram(&g.datagrams[0], &d);
            std::mem::forget(g);
        }
        _ => panic!("round trip lost the data frame"),
    }
    std::mem::forget(d); std::mem::forget(bytes);
}

//@h props=C16 tier=quick timeout=300 role=codec-roundtrip
//@fn DataFrameBuilder::{new,build}, read_data_payload, Frame::read
//@bound the empty data frame, sequence id and nonce any
//@assume crc::compute replaced by an uninterpreted constant function
#[kani::proof]
#[kani::unwind(3)]
#[kani::stub(crate::frame::serial::crc::compute, crate::frame::serial::verif_codec::crc_stub)]
fn o16_7_roundtrip_empty_data_frame() {
    unsafe { CRC_STUB_VALUE = kani::any(); }
    let sequence_id: u32 = kani::any();
    let nonce: bool = kani::any();
    let bytes = DataFrameBuilder::new(sequence_id, nonce).build();
    assert!(bytes.len() == 10);
    match Frame::read(&bytes) {
        Some(Frame::DataFrame(g)) => { assert!(g.sequence_id == sequence_id && g.nonce == nonce && g.datagrams.len() == 0); std::mem::forget(g); }
        _ => panic!("round trip lost the data frame"),
    }
}

// ---- O16.8: ack frames ----------------------------------------------------------------------

fn roundtrip_ack(n: usize) {
    unsafe { CRC_STUB_VALUE = kani::any(); }
    let g0 = AckGroup { base_id: kani::any(), bitfield: kani::any(), nonce: kani::any() };
    let g1 = AckGroup { base_id: kani::any(), bitfield: kani::any(), nonce: kani::any() };
    let fb: u32 = kani::any();
    let pb: u32 = kani::any();
    let mut b = AckFrameBuilder::new(fb, pb);
    if n >= 1 { b.add(&g0); }
    if n >= 2 { b.add(&g1); }
    let bytes = b.build();
    assert!(bytes.len() == 15 + 9 * n);
    assert!(unsafe { CRC_STUB_LEN } == bytes.len() - 4 && trailer(&bytes) == unsafe { CRC_STUB_VALUE });
    match Frame::read(&bytes) {
        Some(Frame::AckFrame(h)) => {
            assert!(h.frame_window_base_id == fb && h.packet_window_base_id == pb);
            assert!(h.frame_acks.len() == n);
            if n >= 1 { assert!(h.frame_acks[0] == g0); }
            if n >= 2 { assert!(h.frame_acks[1] == g1); }
            std::mem::forget(h);
        }
        _ => panic!("round trip lost the ack frame"),
    }
    std::mem::forget(bytes);
}

macro_rules! rt_ack {
    ($name:ident, $n:expr) => {
        #[kani::proof]
        #[kani::unwind(4)]
        #[kani::stub(crate::frame::serial::crc::compute, crate::frame::serial::verif_codec::crc_stub)]
        fn $name() { roundtrip_ack($n); }
    };
}

//@h props=C16,C15 tier=quick timeout=600 role=codec-roundtrip
//@fn AckFrameBuilder::{new,build}, write_ack, read_ack_payload, Frame::read
//@bound zero ack groups; both window bases any
//@assume crc::compute replaced by an uninterpreted constant function
rt_ack!(o16_8_roundtrip_ack_0, 0);
//@h props=C16,C15 tier=quick timeout=600 role=codec-roundtrip
//@fn AckFrameBuilder::{new,add,build}, read_ack_payload, read_frame_ack, Frame::read
//@bound one ack group, every field any
//@assume crc::compute replaced by an uninterpreted constant function
rt_ack!(o16_8_roundtrip_ack_1, 1);
//@h props=C16,C15 tier=quick timeout=600 role=codec-roundtrip
//@fn AckFrameBuilder::{new,add,build}, read_ack_payload, read_frame_ack, Frame::read
//@bound two ack groups, every field any
//@assume crc::compute replaced by an uninterpreted constant function
rt_ack!(o16_8_roundtrip_ack_2, 2);

// ---- O16.10 / O3.1: arbitrary bytes ---------------------------------------------------------

// reference: number of bytes a well-formed payload of each type occupies, computed from the bytes
fn ref_frame_len(b: &[u8]) -> Option<usize> {
    let n = b.len();
    if n < 5 { return None; }
    match b[0] {
        0 => Some(1472), 1 => Some(25), 2 => Some(9), 3 => Some(10), 4 => Some(5), 5 => Some(5), 11 => Some(14),
        12 => {
            if n < 15 { return None; }
            let cnt = ((b[9] as usize) << 8) | b[10] as usize;
            Some(15 + 9 * cnt)
        }
        10 => {
            if n < 10 { return None; }
            let cnt = (b[5] & 0x7F) as usize;
            let mut off = 6;
            let mut i = 0;
            while i < cnt {
                if off + 6 > n - 4 { return None; }
                let h = b[off];
                let sz = if h & 0x80 == 0 { 6 + (h & 0x3F) as usize }
                         else if h & 0x40 == 0 { 9 + b[off + 1] as usize }
                         else { 14 + (((b[off + 1] as usize) << 8) | b[off + 2] as usize) };
                off += sz;
                i += 1;
            }
            Some(off + 4)
        }
        _ => None,
    }
}

//@h props=C16,C03,C18 tier=quick timeout=900 role=codec-arbitrary-bytes
//@fn Frame::read and all nine read_*_payload parsers, read_datagram, read_frame_ack
//@bound input length any in 0..=24 bytes, contents any (so: <=2 datagrams, <=1 ack group; SYN never complete)
//@assume crc::compute replaced by an uninterpreted function that ACCEPTS (returns the trailer) - the parsers see every byte string
#[kani::proof]
#[kani::unwind(5)]
#[kani::stub(crate::frame::serial::crc::compute, crate::frame::serial::verif_codec::crc_stub)]
fn o16_10_arbitrary_bytes_exact_length() {
    let buf: [u8; 24] = kani::any();
    let n: usize = kani::any();
    kani::assume(n <= 24);
    let b = &buf[..n];
    if n >= 5 { unsafe { CRC_STUB_VALUE = trailer(b); } }
    // no panic for any input (Kani default checks), and acceptance implies exactly one well-formed frame
    let r = Frame::read(b);
    if let Some(ref f) = r {
        assert!(ref_frame_len(b) == Some(n));
        match f {
            Frame::HandshakeErrorFrame(_) => assert!(b[5] < 3),
            Frame::HandshakeSynFrame(_) => panic!("a SYN shorter than 1472 bytes was accepted"),
            _ => (),
        }
    } else if n >= 5 {
        // rejection has a reason: wrong length for the type, unknown type or unknown enum value
        assert!(ref_frame_len(b) != Some(n) || (b[0] == 3 && b[5] >= 3));
    }
    kani::cover!(matches!(r, Some(Frame::DataFrame(_))), "a data frame is accepted");
    kani::cover!(matches!(r, Some(Frame::AckFrame(_))), "an ack frame is accepted");
    kani::cover!(matches!(r, Some(Frame::SyncFrame(_))), "a sync frame is accepted");
    kani::cover!(r.is_none() && n >= 5, "a CRC-valid byte string is rejected");
    std::mem::forget(r);
}

//@h props=C18,C16,C03 tier=quick timeout=300 role=codec-arbitrary-bytes
//@fn read_handshake_syn_payload
//@bound payload length any in 0..=1600 (the slice is a window of a symbolic 1600-byte buffer)
#[kani::proof]
#[kani::unwind(3)]
fn o18_2_undersized_syn_is_not_a_syn() {
    let buf: [u8; 1600] = kani::any();
    let n: usize = kani::any();
    kani::assume(n <= 1600);
    let r = read_handshake_syn_payload(&buf[..n]);
    assert!(r.is_some() == (n == MAX_FRAME_SIZE - 5));
}

// Decoding helper for the flush-path obligations (child modules of half_connection cannot reach the private reader).
pub(crate) fn verif_read_datagram(data: &[u8]) -> Option<(Datagram, usize)> { read_datagram(data) }

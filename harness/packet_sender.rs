//@file parent=src/half_connection/packet_sender.rs
// PacketSender: id assignment (FIFO), parent leads, resend flag per mode, window/allocation limits,
// send_buffer_size accounting, stale TimeSensitive discard, acknowledgement from the network.
use super::*;

const CH0: Channel = Channel { parent_id: None };

// Loop-free stand-in for PacketSender::new (which runs 64- and W-iteration init loops): same field
// values as new(w, base, max_alloc) for a window of w <= 4 slots.  Tied to the real constructor by
// o5_0_small_ctor_matches_new.
pub(crate) fn small(w: u32, base_id: u32, max_alloc_ceil: usize) -> PacketSender {
    let window: Box<[Option<WindowEntry>]> = if w == 2 { Box::new([None, None]) } else { Box::new([None, None, None, None]) };
    PacketSender {
        packet_send_queue: VecDeque::new(),
        base_id,
        next_id: base_id,
        window,
        window_size: w,
        window_mask: w - 1,
        window_parent_id: None,
        channels: Box::new([CH0; CHANNEL_COUNT]),
        max_alloc: max_alloc_ceil,
        alloc: 0,
        total_size: 0,
    }
}

pub(crate) fn real_alloc_size(n: usize) -> usize { alloc_size(n) }

pub(crate) fn any_mode() -> SendMode {
    let m: u8 = kani::any();
    kani::assume(m < 4);
    match m { 0 => SendMode::TimeSensitive, 1 => SendMode::Unreliable, 2 => SendMode::Persistent, _ => SendMode::Reliable }
}

fn any_channel2() -> u8 {
    let c: u8 = kani::any();
    kani::assume(c < 2);
    c
}

fn resend_of(m: SendMode) -> bool { m == SendMode::Persistent || m == SendMode::Reliable }

fn small_ctor_matches_new(w: u32) {
    let base: u32 = kani::any();
    kani::assume(packet_id::is_valid(base));
    let max_alloc: usize = kani::any();
    kani::assume(max_alloc <= 1 << 40);
    let a = PacketSender::new(w, base, max_alloc);
    let ceil = ((max_alloc + MAX_FRAGMENT_SIZE - 1) / MAX_FRAGMENT_SIZE) * MAX_FRAGMENT_SIZE;
    let b = small(w, base, ceil);
    assert!(a.base_id == b.base_id && a.next_id == b.next_id && a.window_size == b.window_size && a.window_mask == b.window_mask);
    assert!(a.window.len() == b.window.len() && a.channels.len() == b.channels.len());
    assert!(a.max_alloc == b.max_alloc && a.alloc == 0 && a.total_size == 0 && a.window_parent_id.is_none(), "[C06] the sender's limit is the peer's advertised limit rounded up to a whole fragment");
    assert!(a.packet_send_queue.len() == 0);
    let i: usize = kani::any();
    kani::assume(i < CHANNEL_COUNT);
    assert!(a.channels[i].parent_id.is_none() && b.channels[i].parent_id.is_none());
    let j: usize = kani::any();
    kani::assume(j < w as usize);
    assert!(a.window[j].is_none() && b.window[j].is_none());
    std::mem::forget(a); std::mem::forget(b);
}

//@h props=C05,C06 tier=thorough timeout=900 role=sender-ctor args=--no-memory-safety-checks
//@fn PacketSender::new
//@bound window size 4 (the size every sender obligation uses), base id any valid, max_alloc any <= 2^40: the loop-free constructor of the obligations equals the real one field by field
//@assume Kani pointer checks off (constructor comparison)
#[kani::proof]
#[kani::unwind(66)]
fn o5_0_small_ctor_matches_new() { small_ctor_matches_new(4); }

//@h props=C05,C06 tier=thorough timeout=900 role=sender-ctor args=--no-memory-safety-checks
//@fn PacketSender::new
//@bound as o5_0_small_ctor_matches_new for window size 2
//@assume Kani pointer checks off (constructor comparison)
#[kani::proof]
#[kani::unwind(66)]
fn o5_0_small_ctor_matches_new_w2() { small_ctor_matches_new(2); }

fn script_two_packets(base: u32) {
    let mut s = small(4, base, 1448 * 8);
    let fid: u32 = kani::any();
    let (m0, m1) = (any_mode(), any_mode());
    let (c0, c1) = (any_channel2(), any_channel2());
    let b0: u8 = kani::any();
    s.enqueue_packet(Box::new([b0]), c0, m0, fid);
    assert!(s.total_size() == 1, "[C20] counts accepted bytes");
    s.enqueue_packet(Box::new([]), c1, m1, fid);
    assert!(s.pending_count() == 2);
    let r0 = s.emit_packet(fid);
    let r1 = s.emit_packet(fid);
    match (r0, r1) {
        (Some((p0, rs0)), Some((p1, rs1))) => {
            {
                let q0 = p0.borrow();
                let q1 = p1.borrow();
                let d0 = q0.datagram(0);
                let d1 = q1.datagram(0);
                // submission order = id order, consecutive from the base, across the 2^20 wrap
                assert!(d0.sequence_id == base && d1.sequence_id == packet_id::add(base, 1), "[C05,C01] ids follow submission order");
                assert!(d0.channel_id == c0 && d1.channel_id == c1, "[C05,C01] channel kept");
                assert!(d0.data.len() == 1 && d0.data[0] == b0 && d1.data.len() == 0, "[C05,C01,C04] payload kept");
                assert!(d0.fragment_id_last == 0 && d1.fragment_id_last == 0, "[C04] one fragment");
                // parent leads: distance to the latest Reliable packet of the window / of the channel
                assert!(d0.window_parent_lead == 0 && d0.channel_parent_lead == 0, "[C02,C05] first packet has no parent");
                let w1 = if m0 == SendMode::Reliable { 1 } else { 0 };
                let c1l = if m0 == SendMode::Reliable && c0 == c1 { 1 } else { 0 };
                assert!(d1.window_parent_lead == w1, "[C02,C05] window parent lead names the latest Reliable packet");
                assert!(d1.channel_parent_lead == c1l, "[C02,C05] channel parent lead names the latest Reliable packet of the channel");
                assert!(rs0 == resend_of(m0) && rs1 == resend_of(m1), "[C12,C02] resend exactly for Persistent and Reliable");
            }
            assert!(s.next_id() == packet_id::add(base, 2) && s.base_id() == base);
            assert!(s.total_size() == 1, "[C20] emitting does not change the counter");
            assert!(s.alloc == 1 && s.pending_count() == 0, "[C06] allocation counts fragment-rounded sizes");
            kani::cover!(m0 == SendMode::Reliable && c0 == c1, "second packet depends on a Reliable parent");
            kani::cover!(m0 == SendMode::TimeSensitive, "TimeSensitive sent within its flush");
            std::mem::forget(p0); std::mem::forget(p1);
        }
        _ => panic!("[C05] a packet within window and allocation limits was not emitted"),
    }
    assert!(s.emit_packet(fid).is_none());
    std::mem::forget(s);
}

//@h props=C05,C01,C02,C12,C20,C06 tier=quick timeout=600 role=sender-script
//@fn PacketSender::{enqueue_packet, emit_packet}, PendingPacket::{new, datagram}
//@bound W=4, base id 0, two packets (1 byte, 0 bytes), channels {0,1}, modes any, flush id any (same for all calls)
#[kani::proof]
#[kani::unwind(5)]
fn o5_1_two_packets_base0() { script_two_packets(0); }

//@h props=C02,C05,C01,C12,C20,C06 tier=quick timeout=600 role=sender-script
//@fn PacketSender::{enqueue_packet, emit_packet}, PendingPacket::{new, datagram}
//@bound W=4, base id 2^20-1 (second id wraps to 0), two packets, channels {0,1}, modes any
#[kani::proof]
#[kani::unwind(5)]
fn o5_1_two_packets_wrap() { script_two_packets(0xFFFFF); }

//@h props=C12,C20,C05 tier=quick timeout=600 role=sender-stale
//@fn PacketSender::{enqueue_packet, emit_packet}
//@bound W=4, base 0; queue = [TimeSensitive(1 byte, flush id f0), any mode(2 bytes, flush id f1)], emit with flush id e; f0,f1,e any
#[kani::proof]
#[kani::unwind(5)]
fn o12_3_stale_time_sensitive_discarded() {
    let mut s = small(4, 0, 1448 * 8);
    let (f0, f1, e): (u32, u32, u32) = (kani::any(), kani::any(), kani::any());
    let m1 = any_mode();
    s.enqueue_packet(Box::new([7]), 0, SendMode::TimeSensitive, f0);
    s.enqueue_packet(Box::new([8, 9]), 1, m1, f1);
    assert!(s.total_size() == 3);
    let r = s.emit_packet(e);
    let stale0 = f0 != e;
    let stale1 = m1 == SendMode::TimeSensitive && f1 != e;
    match r {
        Some((p, _)) => {
            let len = p.borrow().datagram(0).data.len();
            if stale0 {
                assert!(len == 2 && !stale1, "[C12] a TimeSensitive packet from an earlier flush is never handed out");
                assert!(s.total_size() == 2, "[C20] a discarded stale packet leaves the counter");
            } else {
                assert!(len == 1);
                assert!(s.total_size() == 3);
            }
            // ids are not consumed by discarded packets
            assert!(p.borrow().datagram(0).sequence_id == 0, "[C05] ids stay consecutive");
            std::mem::forget(p);
        }
        None => {
            assert!(stale0 && stale1, "[C05] a sendable packet was withheld");
            assert!(s.total_size() == 0 && s.pending_count() == 0, "[C20] all stale packets left the counter");
        }
    }
    kani::cover!(stale0 && !stale1, "stale packet skipped, next one sent");
    kani::cover!(stale0 && stale1, "both stale");
    std::mem::forget(s);
}

//@h props=C06,C05,C11 tier=quick timeout=600 role=sender-limits also_quick=C05
//@fn PacketSender::{enqueue_packet, emit_packet, acknowledge}
//@bound W=2, base 2^20-1; three 1-byte packets of any mode: the third is held back until the window reopens
#[kani::proof]
#[kani::unwind(5)]
fn o6_3_window_limit_and_reopen() {
    let base = 0xFFFFF;
    let mut s = small(2, base, 1448 * 8);
    let fid: u32 = kani::any();
    let (m0, m1, m2) = (any_mode(), any_mode(), any_mode());
    s.enqueue_packet(Box::new([1]), 0, m0, fid);
    s.enqueue_packet(Box::new([2]), 0, m1, fid);
    s.enqueue_packet(Box::new([3]), 0, m2, fid);
    let r0 = s.emit_packet(fid);
    let r1 = s.emit_packet(fid);
    assert!(r0.is_some() && r1.is_some());
    let r2 = s.emit_packet(fid);
    assert!(r2.is_none(), "[C06] never more packets outstanding than the window the peer advertised");
    assert!(packet_id::sub(s.next_id(), s.base_id()) <= 2);
    assert!(s.pending_count() == 1 && s.total_size() == 3);
    // the receiver reports its window base = our next id: everything is acknowledged
    s.acknowledge(s.next_id());
    assert!(s.base_id() == s.next_id() && s.alloc == 0, "[C11,C06,C05] a full acknowledgement empties window and allocation");
    assert!(s.total_size() == 1, "[C20] acknowledged packets leave the counter");
    let r3 = s.emit_packet(fid);
    assert!(r3.is_some(), "[C11] the held-back packet of any mode is sent once the window reopens");
    if let Some((p, _)) = &r3 { assert!(p.borrow().datagram(0).sequence_id == 1 && p.borrow().datagram(0).data[0] == 3); }
    std::mem::forget(r0); std::mem::forget(r1); std::mem::forget(r3); std::mem::forget(s);
}

fn ack_script(base: u32) -> (PacketSender, Option<(PendingPacketRc, bool)>, Option<(PendingPacketRc, bool)>) {
    let mut s = small(4, base, 1448 * 8);
    let fid: u32 = kani::any();
    s.enqueue_packet(Box::new([1]), 0, any_mode(), fid);
    s.enqueue_packet(Box::new([2, 3]), 1, any_mode(), fid);
    let r0 = s.emit_packet(fid);
    let r1 = s.emit_packet(fid);
    assert!(r0.is_some() && r1.is_some());
    (s, r0, r1)
}

//@h props=C03,C15 tier=quick timeout=900 role=sender-ack-hostile
//@fn PacketSender::acknowledge (reached from HalfConnection::handle_ack_frame with the peer's packet_window_base_id)
//@bound W=4, base 2^20-2 (window spans the wrap), two emitted packets; acknowledged id = ANY u32 that is not a valid 20-bit id
#[kani::proof]
#[kani::unwind(6)]
fn o3_3_acknowledge_invalid_id() {
    let base = 0xFFFFE;
    let (mut s, r0, r1) = ack_script(base);
    let id: u32 = kani::any();
    kani::assume(!packet_id::is_valid(id));
    s.acknowledge(id);
    assert!(s.base_id() == base && s.next_id() == 0 && s.total_size() == 3 && s.alloc == 3, "[C03,C15] a window base that is not a packet id changes nothing");
    std::mem::forget(r0); std::mem::forget(r1); std::mem::forget(s);
}

//@h props=C20,C12,C03,C06,C15 tier=quick timeout=1500 role=sender-ack-valid cbmc=--max-field-sensitivity-array-size+512
//@fn PacketSender::acknowledge
//@bound W=4, base 2^20-2, two emitted packets (1 and 2 bytes); acknowledged id = ANY valid 20-bit id
#[kani::proof]
#[kani::unwind(6)]
fn o3_3_acknowledge_any_valid_id() {
    let base = 0xFFFFE;
    let (mut s, r0, r1) = ack_script(base);
    let id: u32 = kani::any();
    kani::assume(packet_id::is_valid(id));
    s.acknowledge(id);
    let nb = s.base_id();
    let d = packet_id::sub(nb, base);
    assert!(d <= 2 && s.next_id() == 0, "[C03,C06] base stays within [base, next]");
    if packet_id::sub(id, base) <= 2 { assert!(nb == id, "[C12,C20,C11] the sender releases every packet the receiver reports having moved past, across the id wrap"); }
    else { assert!(nb == base, "[C03,C15] an id outside (base, next] changes nothing"); }
    let expect = if d == 0 { 3 } else if d == 1 { 2 } else { 0 };
    assert!(s.total_size() == expect, "[C20] exactly the acknowledged packets leave the counter");
    assert!(s.alloc == expect, "[C06] allocation follows");
    kani::cover!(d == 1, "partial acknowledgement");
    kani::cover!(d == 2, "full acknowledgement");
    std::mem::forget(r0); std::mem::forget(r1); std::mem::forget(s);
}

//@h props=C20,C12,C06 tier=quick timeout=1200 role=sender-stale-multifragment cbmc=--max-field-sensitivity-array-size+512
//@fn PacketSender::{enqueue_packet, emit_packet, acknowledge}, alloc_size
//@bound W=4, base 2^20-1; queue = [TimeSensitive 1449 bytes (two fragments, not a multiple of the fragment size), Reliable 2 bytes]; a step() intervenes before the flush (flush ids differ by any amount), then the peer acknowledges everything
#[kani::proof]
#[kani::unwind(5)]
fn o20_1_stale_multifragment_time_sensitive() {
    let base = 0xFFFFF;
    let mut s = small(4, base, 1448 * 8);
    let f0: u32 = kani::any();
    let f1: u32 = kani::any();
    kani::assume(f0 != f1);
    s.enqueue_packet(vec![0u8; 1449].into_boxed_slice(), 0, SendMode::TimeSensitive, f0);
    s.enqueue_packet(Box::new([8, 9]), 1, SendMode::Reliable, f0);
    assert!(s.total_size() == 1451, "[C20] counts accepted bytes");
    let r = s.emit_packet(f1);
    match &r {
        Some((p, resend)) => {
            assert!(p.borrow().datagram(0).data.len() == 2 && *resend, "[C12] the stale TimeSensitive packet is never handed out");
            assert!(p.borrow().datagram(0).sequence_id == base);
        }
        None => panic!("[C05] a sendable packet was withheld"),
    }
    assert!(s.total_size() == 2, "[C20] a discarded stale packet leaves the counter by exactly its payload size");
    assert!(s.alloc == 2, "[C06] a discarded packet never counted against the peer's allocation");
    s.acknowledge(s.next_id());
    assert!(s.total_size() == 0 && s.alloc == 0, "[C20] zero once everything has been acknowledged");
    std::mem::forget(r); std::mem::forget(s);
}

impl PacketSender {
    pub(crate) fn verif_front_mode(&self) -> u8 {
        match self.packet_send_queue.front().map(|p| p.mode) { Some(SendMode::TimeSensitive) => 0, Some(SendMode::Unreliable) => 1, Some(SendMode::Persistent) => 2, Some(SendMode::Reliable) => 3, None => 9 }
    }
}

//@h props=C06,C05,C20 tier=quick timeout=900 role=sender-alloc-limit also_quick=C05,C20 args=--no-memory-safety-checks
//@fn PacketSender::{enqueue_packet, emit_packet, acknowledge}, alloc_size
//@assume Kani pointer checks off in this accounting obligation (the same functions run with them on in o5_1/o3_3)
//@bound W=4, base 2^20-1, peer allocation limit 2 fragments (2896 bytes); queue = [100 bytes Unreliable, 1449 bytes Reliable (two fragments: charged 2896 by the receiver)]; then the peer acknowledges the first packet
#[kani::proof]
#[kani::unwind(5)]
fn o6_3_alloc_limit_counts_fragment_rounded_size() {
    let base = 0xFFFFF;
    let mut s = small(4, base, 1448 * 2);
    let fid: u32 = kani::any();
    let (m0, m1) = (SendMode::Unreliable, SendMode::Reliable);
    s.enqueue_packet(vec![0u8; 100].into_boxed_slice(), 0, m0, fid);
    s.enqueue_packet(vec![0u8; 1449].into_boxed_slice(), 0, m1, fid);
    let r0 = s.emit_packet(fid);
    assert!(r0.is_some() && s.alloc == 100);
    let r1 = s.emit_packet(fid);
    assert!(r1.is_none(), "[C06,C05] a packet whose fragment-rounded size does not fit the peer's remaining receive allocation is held back (the receiver would have to discard it)");
    assert!(s.alloc <= s.max_alloc && s.pending_count() == 1 && s.total_size() == 1549);
    s.acknowledge(0);
    assert!(s.alloc == 0 && s.total_size() == 1449, "[C20,C06] the acknowledged packet leaves both counters");
    let r2 = s.emit_packet(fid);
    assert!(r2.is_some() && s.alloc == 2896 && s.alloc <= s.max_alloc, "[C05,C11] it is sent once the allocation is free; charged at the size the receiver allocates");
    s.acknowledge(1);
    assert!(s.alloc == 0 && s.total_size() == 0, "[C20] zero once everything has been acknowledged: payload bytes, not fragment-rounded bytes");
    std::mem::forget(r0); std::mem::forget(r2); std::mem::forget(s);
}

// ---- C19: teardown with outstanding fragment references leaves no allocation behind (CBMC --memory-leak-check) ----
//@h props=C19,C12 tier=quick timeout=900 role=leak-sender cbmc=--memory-leak-check
//@fn PacketSender::{enqueue_packet, emit_packet, acknowledge}, FragmentRef::new, drop glue of PacketSender / PendingPacket / Rc / Weak
//@bound 4-slot sender; two packets (1 byte Reliable, 1449 bytes Unreliable) emitted, fragment references (Weak) kept as the flush path keeps them; the first packet is acknowledged while its reference is still queued; one packet stays in the send queue; everything is dropped
//@assume CBMC's memory-leak check
#[kani::proof]
#[kani::unwind(5)]
fn o19_2_sender_dropped_with_outstanding_references() {
    let mut s = small(4, 0xFFFFF, 1448 * 8);
    s.enqueue_packet(Box::new([1]), 0, SendMode::Reliable, 0);
    s.enqueue_packet(vec![0u8; 1449].into_boxed_slice(), 1, SendMode::Unreliable, 0);
    s.enqueue_packet(Box::new([3]), 2, SendMode::Persistent, 0);
    let (p0, _) = s.emit_packet(0).unwrap();
    let (p1, _) = s.emit_packet(0).unwrap();
    let f0 = super::super::pending_packet::FragmentRef::new(&p0, 0);
    let f1 = super::super::pending_packet::FragmentRef::new(&p1, 1);
    drop(p0); drop(p1);
    s.acknowledge(0);           // the receiver moved past the first packet: its Rc is released, the Weak is still alive
    assert!(f0.packet.upgrade().is_none() && f1.packet.upgrade().is_some());
    drop(s);
    drop(f0); drop(f1);
}

//@h props=C19 tier=quick timeout=900 role=leak-canary cbmc=--memory-leak-check canary=1
//@fn (canary) the same script with one Rc deliberately forgotten: the leak check must report it
//@bound vacuity canary for the two o19_2 obligations: must FAIL
#[kani::proof]
#[kani::unwind(5)]
fn o19_2_canary_forgotten_rc_is_reported_as_leak() {
    let mut s = small(4, 0xFFFFF, 1448 * 8);
    s.enqueue_packet(Box::new([1]), 0, SendMode::Reliable, 0);
    let (p0, _) = s.emit_packet(0).unwrap();
    s.acknowledge(0);
    std::mem::forget(p0);      // the packet's allocation is never released
    drop(s);
}

//@h props=C02,C01,C05 tier=quick timeout=900 role=sender-parent-across-wrap args=--no-memory-safety-checks
//@assume Kani pointer checks off in this functional obligation
//@fn PacketSender::{enqueue_packet, emit_packet, acknowledge}
//@bound W=4, base 2^20-2: two Unreliable packets (ids 2^20-2, 2^20-1), one Reliable packet (id 0, after the wrap), all on channel 3; the peer acknowledges up to 2^20-1 (the window base is still before the wrap, the Reliable packet unacknowledged); then one more packet on channel 3
#[kani::proof]
#[kani::unwind(6)]
fn o2_5_unacknowledged_reliable_parent_survives_ack_across_the_wrap() {
    let base = 0xFFFFE;
    let mut s = small(4, base, 1448 * 8);
    s.enqueue_packet(Box::new([1]), 3, SendMode::Unreliable, 0);
    s.enqueue_packet(Box::new([2]), 3, SendMode::Unreliable, 0);
    s.enqueue_packet(Box::new([3]), 3, SendMode::Reliable, 0);
    let r0 = s.emit_packet(0);
    let r1 = s.emit_packet(0);
    let r2 = s.emit_packet(0);
    assert!(r2.as_ref().unwrap().0.borrow().datagram(0).sequence_id == 0);
    s.acknowledge(0xFFFFF);
    assert!(s.base_id() == 0xFFFFF);
    s.enqueue_packet(Box::new([kani::any()]), 3, any_mode(), 0);
    let r3 = s.emit_packet(0).unwrap();
    {
        let p = r3.0.borrow();
        let d = p.datagram(0);
        assert!(d.sequence_id == 1);
        assert!(d.window_parent_lead == 1 && d.channel_parent_lead == 1, "[C02] a packet sent while an earlier Reliable packet is unacknowledged names it as its parent - also when the parent's id lies after the 2^20 wrap and the acknowledged base before it");
    }
    std::mem::forget(r0); std::mem::forget(r1); std::mem::forget(r2); std::mem::forget(r3); std::mem::forget(s);
}

//@file parent=src/lib.rs mod=verif_env
// Environment models used by the client/server lifecycle obligations (all cfg(kani), scratch copy only).
//
//  * net::UdpSocket -> a datagram socket model: every send succeeds or fails nondeterministically and is
//    recorded in a ghost log (destination, length, leading bytes); receives return WouldBlock.
//  * std::collections::HashMap (server) -> VecMap, a 4-slot association list (same API subset).
//  * half_connection::HalfConnection (client/server/remote_client only) -> opaque model: records the
//    Config it was created with, answers is_send_pending() arbitrarily, delivers 0..1 packets per
//    receive(), and logs the order of calls.
//  * rand::random::<u32>() in the server -> any u32 (recorded).
//  * Client::now_ms / Server::now_ms (Instant::now() - time_base) -> a millisecond clock set by the obligation.
//
//@inject src/client/mod.rs :: ^use std::net;$ :: #[cfg(not(kani))]\nuse std::net;\n#[cfg(kani)]\nuse crate::verif_env::net;
//@inject src/server/mod.rs :: ^use std::net;$ :: #[cfg(not(kani))]\nuse std::net;\n#[cfg(kani)]\nuse crate::verif_env::net;
//@inject src/udp_frame_sink.rs :: ^use std::net;$ :: #[cfg(not(kani))]\nuse std::net;\n#[cfg(kani)]\nuse crate::verif_env::net;
//@inject src/server/mod.rs :: ^use std::collections::HashMap;$ :: #[cfg(not(kani))]\nuse std::collections::HashMap;\n#[cfg(kani)]\nuse crate::verif_env::VecMap as HashMap;
//@inject src/client/mod.rs :: ^use crate::half_connection;$ :: #[cfg(not(kani))]\nuse crate::half_connection;\n#[cfg(kani)]\nuse crate::verif_env::opaque as half_connection;
//@inject src/server/mod.rs :: ^use crate::half_connection;$ :: #[cfg(not(kani))]\nuse crate::half_connection;\n#[cfg(kani)]\nuse crate::verif_env::opaque as half_connection;
//@inject src/server/remote_client.rs :: ^use crate::half_connection::HalfConnection;$ :: #[cfg(not(kani))]\nuse crate::half_connection::HalfConnection;\n#[cfg(kani)]\nuse crate::verif_env::opaque::HalfConnection;
//@inject src/client/mod.rs :: let now = time::Instant::now\(\);\n\s+\(now - self\.time_base\)\.as_millis\(\) as u64 :: #[cfg(kani)]\n        let r = crate::verif_env::clock_ms();\n        #[cfg(not(kani))]\n        let r = { let now = time::Instant::now(); (now - self.time_base).as_millis() as u64 };\n        r
//@inject src/server/mod.rs :: let now = time::Instant::now\(\);\n\s+\(now - self\.time_base\)\.as_millis\(\) as u64 :: #[cfg(kani)]\n        let r = crate::verif_env::clock_ms();\n        #[cfg(not(kani))]\n        let r = { let now = time::Instant::now(); (now - self.time_base).as_millis() as u64 };\n        r
//@inject src/server/mod.rs :: let local_nonce = rand::random::<u32>\(\); :: #[cfg(not(kani))]\n        let local_nonce = rand::random::<u32>();\n        #[cfg(kani)]\n        let local_nonce = crate::verif_env::random_u32();

#![allow(dead_code)]

pub fn fake_instant() -> std::time::Instant {
    // std::time::Instant::now() is a foreign call; the lifecycle handlers take now_ms as a parameter,
    // so the time base is never read by the obligations.
    #[repr(C)]
    struct Ts { s: i64, n: u32 }
    unsafe { std::mem::transmute::<Ts, std::time::Instant>(Ts { s: 0, n: 0 }) }
}

// Millisecond clock behind Client::now_ms / Server::now_ms (Instant::now() is a foreign call): the obligation sets it.
pub static mut CLOCK_MS: u64 = 0;
pub fn clock_ms() -> u64 { unsafe { CLOCK_MS } }

pub static mut RANDOM_LAST: u32 = 0;
pub static mut RANDOM_CALLS: u32 = 0;
pub static mut RANDOM_FIXED: Option<u32> = None;
pub fn random_u32() -> u32 {
    // any u32; an obligation may pin it to a concrete value (shape instantiation: keeps the nonce comparison,
    // and with it the control flow through the Rc/RefCell-heavy handlers, concrete)
    let v: u32 = match unsafe { RANDOM_FIXED } { Some(x) => x, None => kani::any() };
    unsafe { RANDOM_LAST = v; RANDOM_CALLS += 1; }
    v
}

pub static mut RANDOM_BOOL_LAST: bool = false;
pub static mut RANDOM_BOOL_FIXED: Option<bool> = None;
pub fn random_bool() -> bool {
    // any bool; an obligation whose control flow depends on the nonce (acknowledgement validation) pins it per instance
    let v: bool = match unsafe { RANDOM_BOOL_FIXED } { Some(x) => x, None => kani::any() };
    unsafe { RANDOM_BOOL_LAST = v; }
    v
}

// ---------------------------------------------------------------------------------------------
pub mod net {
    pub use std::net::{IpAddr, Ipv4Addr, Ipv6Addr, SocketAddr, SocketAddrV4, SocketAddrV6, ToSocketAddrs};

    pub const LOG: usize = 4;

    #[derive(Clone, Copy)]
    pub struct Sent {
        pub port: u16,        // destination port (0 = connected peer)
        pub len: usize,
        pub head: [u8; 10],   // leading bytes of the datagram
    }

    // Ghost log of transmitted datagrams.  Deliberately scalar-only (no array element writes): with
    // array-typed ghost state CBMC 6.11 reported spurious deallocation failures in unrelated drop glue.
    #[derive(Clone, Copy)]
    pub struct Slot { pub port: u16, pub len: usize, pub lo: u64, pub hi: u16 }
    pub struct SockLog { pub s0: Slot, pub s1: Slot, pub s2: Slot, pub s3: Slot, pub n: usize, pub bytes: usize,
                         // one datagram waiting in the receive buffer (obligations that run the real step())
                         pub rx_len: usize, pub rx: [u8; 16], pub rx_port: u16 }

    pub struct UdpSocket { pub log: std::cell::RefCell<SockLog> }

    const EMPTY: Slot = Slot { port: 0, len: 0, lo: 0, hi: 0 };

    impl UdpSocket {
        pub fn model() -> Self {
            UdpSocket { log: std::cell::RefCell::new(SockLog { s0: EMPTY, s1: EMPTY, s2: EMPTY, s3: EMPTY, n: 0, bytes: 0, rx_len: 0, rx: [0; 16], rx_port: 0 }) }
        }
        pub fn sent_n(&self) -> usize { self.log.borrow().n }
        pub fn sent_bytes(&self) -> usize { self.log.borrow().bytes }
        pub fn sent(&self, i: usize) -> Sent {
            let l = self.log.borrow();
            let s = if i == 0 { l.s0 } else if i == 1 { l.s1 } else if i == 2 { l.s2 } else { l.s3 };
            let b = s.lo.to_be_bytes();
            let h = s.hi.to_be_bytes();
            Sent { port: s.port, len: s.len, head: [b[0], b[1], b[2], b[3], b[4], b[5], b[6], b[7], h[0], h[1]] }
        }

        fn record(&self, port: u16, data: &[u8]) {
            let mut l = self.log.borrow_mut();
            let g = |k: usize| -> u64 { if data.len() > k { data[k] as u64 } else { 0 } };
            let lo = (g(0) << 56) | (g(1) << 48) | (g(2) << 40) | (g(3) << 32) | (g(4) << 24) | (g(5) << 16) | (g(6) << 8) | g(7);
            let hi = ((g(8) as u16) << 8) | g(9) as u16;
            let slot = Slot { port, len: data.len(), lo, hi };
            let n = l.n;
            if n == 0 { l.s0 = slot; } else if n == 1 { l.s1 = slot; } else if n == 2 { l.s2 = slot; } else if n == 3 { l.s3 = slot; }
            l.n = n + 1;
            l.bytes += data.len();
        }

        pub fn bind<A: ToSocketAddrs>(_a: A) -> std::io::Result<Self> { Ok(Self::model()) }
        pub fn set_nonblocking(&self, _b: bool) -> std::io::Result<()> { Ok(()) }
        pub fn connect<A: ToSocketAddrs>(&self, _a: A) -> std::io::Result<()> { Ok(()) }
        pub fn local_addr(&self) -> std::io::Result<SocketAddr> { Ok(SocketAddr::new(IpAddr::V4(Ipv4Addr::LOCALHOST), 9)) }
        pub fn peer_addr(&self) -> std::io::Result<SocketAddr> { Ok(SocketAddr::new(IpAddr::V4(Ipv4Addr::LOCALHOST), 10)) }
        // A datagram handed to the socket counts as transmitted (the callers discard the result with
        // `let _ =`); loss is modelled on the network side.
        pub fn send(&self, data: &[u8]) -> Result<usize, ()> { self.record(0, data); Ok(data.len()) }
        pub fn send_to<A: ToSocketAddrs>(&self, data: &[u8], a: A) -> Result<usize, ()> {
            let port = match a.to_socket_addrs() { Ok(mut it) => match it.next() { Some(x) => x.port(), None => 0 }, Err(_) => 0 };
            self.record(port, data);
            Ok(data.len())
        }
        pub fn queue_rx(&self, data: &[u8], port: u16) {
            let mut l = self.log.borrow_mut();
            // unrolled copy (harness unwind bounds stay small)
            macro_rules! cp { ($($k:expr),*) => { $( if data.len() > $k { l.rx[$k] = data[$k]; } )* } }
            cp!(0, 1, 2, 3, 4, 5, 6, 7, 8, 9, 10, 11, 12, 13, 14, 15);
            l.rx_len = data.len();
            l.rx_port = port;
        }
        fn take_rx(&self, buf: &mut [u8]) -> Result<(usize, u16), ()> {
            let mut l = self.log.borrow_mut();
            if l.rx_len == 0 { return Err(()); }
            let n = l.rx_len;
            macro_rules! cp { ($($k:expr),*) => { $( if n > $k { buf[$k] = l.rx[$k]; } )* } }
            cp!(0, 1, 2, 3, 4, 5, 6, 7, 8, 9, 10, 11, 12, 13, 14, 15);
            l.rx_len = 0;
            Ok((n, l.rx_port))
        }
        pub fn recv(&self, buf: &mut [u8]) -> Result<usize, ()> { self.take_rx(buf).map(|(n, _)| n) }
        pub fn recv_from(&self, buf: &mut [u8]) -> Result<(usize, SocketAddr), ()> {
            self.take_rx(buf).map(|(n, p)| (n, SocketAddr::new(IpAddr::V4(Ipv4Addr::LOCALHOST), p)))
        }
    }
}

// ---------------------------------------------------------------------------------------------
pub struct VecMap<K, V> { slots: [Option<(K, V)>; 4] }

impl<K: PartialEq + Copy, V> VecMap<K, V> {
    pub fn new() -> Self { VecMap { slots: [None, None, None, None] } }
    pub fn len(&self) -> usize {
        let mut n = 0;
        let mut i = 0;
        while i < 4 { if self.slots[i].is_some() { n += 1; } i += 1; }
        n
    }
    pub fn get(&self, k: &K) -> Option<&V> {
        let mut i = 0;
        while i < 4 {
            if let Some((ref kk, ref v)) = self.slots[i] { if *kk == *k { return Some(v); } }
            i += 1;
        }
        None
    }
    pub fn insert(&mut self, k: K, v: V) -> Option<V> {
        let mut i = 0;
        while i < 4 {
            if let Some((ref kk, _)) = self.slots[i] {
                if *kk == k { return self.slots[i].replace((k, v)).map(|(_, o)| o); }
            }
            i += 1;
        }
        let mut i = 0;
        while i < 4 {
            if self.slots[i].is_none() { self.slots[i] = Some((k, v)); return None; }
            i += 1;
        }
        // bound of the model: at most 4 tracked addresses
        kani::assume(false);
        None
    }
    pub fn remove(&mut self, k: &K) -> Option<V> {
        let mut i = 0;
        while i < 4 {
            let hit = if let Some((ref kk, _)) = self.slots[i] { *kk == *k } else { false };
            if hit { return self.slots[i].take().map(|(_, v)| v); }
            i += 1;
        }
        None
    }
}

// ---------------------------------------------------------------------------------------------
pub mod opaque {
    pub use crate::half_connection::{Config, FrameSink, PacketSink};
    use crate::SendMode;
    use crate::frame;

    // ghost log of calls, in order
    pub const NEW: u8 = 1;
    pub const SEND: u8 = 2;
    pub const RECEIVE: u8 = 3;
    pub const DATA: u8 = 4;
    pub const SYNC: u8 = 5;
    pub const ACK: u8 = 6;
    pub const STEP: u8 = 7;
    pub const FLUSH: u8 = 8;
    pub const PENDING_Q: u8 = 9;

    // ghost call log: 4 bits per call, oldest call in the lowest nibble (scalar-only, see SockLog)
    pub const CALLS: usize = 16;
    pub static mut CALL_SEQ: u64 = 0;
    pub static mut CALL_N: usize = 0;
    pub static mut NEW_COUNT: u32 = 0;
    pub static mut LAST_PENDING_ANSWER: bool = false;
    pub static mut DELIVERED: u32 = 0;
    pub static mut DELIVER_FIXED: Option<bool> = None;

    pub fn reset() { unsafe { CALL_SEQ = 0; CALL_N = 0; NEW_COUNT = 0; DELIVERED = 0; } }
    fn log(c: u8) { unsafe { if CALL_N < CALLS { CALL_SEQ |= (c as u64) << (4 * CALL_N); } CALL_N += 1; } }
    pub fn calls() -> usize { unsafe { CALL_N } }
    pub fn call(i: usize) -> u8 { unsafe { ((CALL_SEQ >> (4 * i)) & 0xF) as u8 } }
    pub fn count(c: u8) -> usize {
        let mut n = 0;
        let mut i = 0;
        unsafe { while i < CALL_N && i < CALLS { if ((CALL_SEQ >> (4 * i)) & 0xF) as u8 == c { n += 1; } i += 1; } }
        n
    }
    // position of the first occurrence of a call (CALLS if absent)
    pub fn first(c: u8) -> usize {
        let mut i = 0;
        unsafe { while i < CALL_N && i < CALLS { if ((CALL_SEQ >> (4 * i)) & 0xF) as u8 == c { return i; } i += 1; } }
        CALLS
    }

    // The Config the connection was created with is kept inside the object (a static Option<Config> made
    // CBMC report spurious deallocation failures in unrelated drop glue).
    pub struct HalfConnection { pub id: u32, pub config: Option<Config> }

    impl HalfConnection {
        pub fn new(config: Config) -> Self {
            unsafe { NEW_COUNT += 1; }
            log(NEW);
            HalfConnection { id: unsafe { NEW_COUNT }, config: Some(config) }
        }
        pub fn model() -> Self { HalfConnection { id: 0, config: None } }
        pub fn rtt_s(&self) -> Option<f64> { None }
        pub fn send_buffer_size(&self) -> usize { kani::any() }
        pub fn is_send_pending(&self) -> bool {
            let b: bool = kani::any();
            unsafe { LAST_PENDING_ANSWER = b; }
            log(PENDING_Q);
            b
        }
        pub fn send(&mut self, data: Box<[u8]>, _channel_id: u8, _mode: SendMode) { log(SEND); std::mem::forget(data); }
        pub fn receive(&mut self, sink: &mut impl PacketSink) {
            log(RECEIVE);
            // 0..1 packets per call; an obligation may pin the choice (it decides a heap-modifying branch, DESIGN.md 10.8)
            let deliver: bool = match unsafe { DELIVER_FIXED } { Some(b) => b, None => kani::any() };
            if deliver { unsafe { DELIVERED += 1; } sink.send(Box::new([7u8])); }
        }
        pub fn handle_data_frame(&mut self, f: frame::DataFrame) { log(DATA); std::mem::forget(f); }
        pub fn handle_sync_frame(&mut self, _f: frame::SyncFrame) { log(SYNC); }
        pub fn handle_ack_frame(&mut self, f: frame::AckFrame) { log(ACK); std::mem::forget(f); }
        pub fn step(&mut self) { log(STEP); }
        pub fn flush(&mut self, _sink: &mut impl FrameSink) { log(FLUSH); }
    }
}

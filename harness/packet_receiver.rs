//@file parent=src/half_connection/packet_receiver/mod.rs
// PacketReceiver against a reference model of the sent history (C01, C02, C05) and under hostile
// datagrams (C03, C06).
use super::*;

const CE: ChannelAdvEntry = ChannelAdvEntry { channel_id: 0, channel_parent_lead: 0 };
const WE: WindowAdvEntry = WindowAdvEntry { window_parent_lead: 0 };
const DE: DataEntry = DataEntry { data: None };
const CH: Channel = Channel { base_id: None, packet_count: 0 };

// Loop-free stand-in for PacketReceiver::new(4, base, max_alloc): same field values, 4-slot windows.
pub(crate) fn small(base_id: u32, max_alloc_ceil: usize) -> PacketReceiver {
    PacketReceiver {
        base_id,
        end_id: base_id,
        assembly_window: assembly_window::verif_assembly_window::small(max_alloc_ceil),
        receive_window_size: 4,
        receive_window_mask: 3,
        channel_entries: Box::new([CE; 4]),
        window_entries: Box::new([WE; 4]),
        data_entries: Box::new([DE; 4]),
        entry_flags: Box::new([0u64]),
        data_flags: Box::new([0u64]),
        channels: Box::new([CH; CHANNEL_COUNT]),
        channel_base_markers: Box::new([None; 4]),
        channel_ready_flags: 0,
        window_ready_flag: false,
    }
}

pub(crate) struct LogSink {
    pub n: usize,
    pub tag: [u8; 6],
    pub val: [u8; 6],
    pub len_ok: bool,
}

impl LogSink {
    pub fn new() -> Self { Self { n: 0, tag: [0xFF; 6], val: [0; 6], len_ok: true } }
}

impl PacketSink for LogSink {
    fn send(&mut self, data: Box<[u8]>) {
        if data.len() != 2 { self.len_ok = false; }
        else if self.n < 6 { self.tag[self.n] = data[0]; self.val[self.n] = data[1]; }
        self.n += 1;
    }
}

// --- reference model of the sender's history -------------------------------------------------

#[derive(Clone, Copy)]
struct Sent { ch: u8, reliable: bool, byte: u8, wpl: u16, cpl: u16 }

fn any_sent() -> Sent {
    let ch: u8 = kani::any();
    kani::assume(ch < 2);
    Sent { ch, reliable: kani::any(), byte: kani::any(), wpl: 0, cpl: 0 }
}

// Leads follow the sender rule (decided on the real PacketSender by o5_1_*): distance to the latest
// Reliable packet sent before, window-wide and per channel; 0 if there is none.
fn history2() -> [Sent; 2] {
    let h0 = any_sent();
    let mut h1 = any_sent();
    if h0.reliable { h1.wpl = 1; if h0.ch == h1.ch { h1.cpl = 1; } }
    [h0, h1]
}

fn history3() -> [Sent; 3] {
    let [h0, h1] = history2();
    let mut h2 = any_sent();
    if h1.reliable { h2.wpl = 1; } else if h0.reliable { h2.wpl = 2; }
    if h1.reliable && h1.ch == h2.ch { h2.cpl = 1; } else if h0.reliable && h0.ch == h2.ch { h2.cpl = 2; }
    [h0, h1, h2]
}

fn datagram_of(base: u32, i: usize, s: &Sent) -> frame::Datagram {
    frame::Datagram {
        sequence_id: packet_id::add(base, i as u32), channel_id: s.ch,
        window_parent_lead: s.wpl, channel_parent_lead: s.cpl,
        fragment_id: 0, fragment_id_last: 0, data: Box::new([i as u8, s.byte]),
    }
}

fn pos(log: &LogSink, tag: u8) -> usize {
    // position of a tag in the delivery log (6 = not delivered)
    if log.n > 0 && log.tag[0] == tag { 0 } else if log.n > 1 && log.tag[1] == tag { 1 } else if log.n > 2 && log.tag[2] == tag { 2 } else if log.n > 3 && log.tag[3] == tag { 3 } else { 6 }
}

fn history4() -> [Sent; 4] {
    let [h0, h1, h2] = history3();
    let mut h3 = any_sent();
    if h2.reliable { h3.wpl = 1; } else if h1.reliable { h3.wpl = 2; } else if h0.reliable { h3.wpl = 3; }
    if h2.reliable && h2.ch == h3.ch { h3.cpl = 1; } else if h1.reliable && h1.ch == h3.ch { h3.cpl = 2; } else if h0.reliable && h0.ch == h3.ch { h3.cpl = 3; }
    [h0, h1, h2, h3]
}

// Oracle over everything delivered so far for a history of n <= 4 packets (C01 + the safety half of C02).
fn check_n(base: u32, n: usize, h: &[Sent; 4], log: &LogSink, r: &PacketReceiver) {
    assert!(log.len_ok, "[C01,C04] delivered length equals submitted length");
    assert!(log.n <= n, "[C01] nothing is delivered twice (more deliveries than packets sent)");
    let p = [pos(log, 0), pos(log, 1), pos(log, 2), pos(log, 3)];
    let mut k = 0;
    while k < 4 {
        if k < log.n {
            let t = log.tag[k] as usize;
            assert!(t < n && log.val[k] == h[t].byte, "[C01] only submitted packets are delivered, contents unaltered");
            assert!(p[t] == k, "[C01] nothing is delivered twice");
        }
        k += 1;
    }
    let mut i = 0;
    while i < n {
        let mut j = i + 1;
        while j < n {
            if h[i].ch == h[j].ch {
                if p[i] < 6 && p[j] < 6 { assert!(p[i] < p[j], "[C01] per-channel delivery follows submission order"); }
                if h[i].reliable && p[j] < 6 { assert!(p[i] < p[j], "[C02,C01] a Reliable packet is delivered before any later packet of its channel"); }
            }
            j += 1;
        }
        // the window never moves past a Reliable packet that has not been delivered
        if h[i].reliable && p[i] == 6 {
            assert!(packet_id::sub(packet_id::add(base, i as u32), r.base_id()) < 4, "[C02] the receive window never passes an undelivered Reliable packet");
        }
        i += 1;
    }
    assert!(packet_id::sub(r.base_id(), base) <= n as u32, "[C01] window base stays within the ids sent");
}

// One concrete schedule shape: which packet of the history arrives k-th and after which arrivals the
// application calls receive() (bit k of recv_mask; always after the last).  Everything that does not select
// a window slot stays symbolic: channels, Reliable or not, payload bytes (and with them the parent leads).
fn run_shape<const K: usize>(base: u32, n: usize, arrivals: [usize; K], recv_mask: u32) -> usize {
    let h = history4();
    let mut r = small(base, 1448 * 4);
    let mut log = LogSink::new();
    let mut k = 0;
    while k < K {
        let a = arrivals[k];
        r.handle_datagram(datagram_of(base, a, &h[a]));
        if recv_mask & (1 << k) != 0 || k + 1 == K {
            r.receive(&mut log);
            check_n(base, n, &h, &log, &r);
        }
        k += 1;
    }
    std::mem::forget(r);
    log.n
}

macro_rules! shape {
    ($name:ident, $base:expr, $n:expr, $arr:expr, $mask:expr) => {
        #[kani::proof]
        #[kani::unwind(6)]
        fn $name() { let d = run_shape($base, $n, $arr, $mask); kani::cover!(d >= 1, "something is delivered"); }
    };
}

//@h props=C01,C02 tier=quick timeout=900 role=receiver-model args=--no-memory-safety-checks
//@assume Kani pointer checks off in this functional obligation (the same code runs with them on in the C03 obligations)
//@fn PacketReceiver::{handle_datagram, receive, advance_window, set_channel_base_id, try_unset_channel_base_id}, AssemblyWindow::{try_add, clear}, datagram_is_valid
//@bound W=4, base 2^20-1 (ids wrap); history of 2 packets (channels in {0,1}, Reliable or not, payload bytes symbolic; leads per the sender rule); schedule shape: arrivals [1,0] (reordered), receive() after each
shape!(o1_4_shape_n2_reordered, 0xFFFFF, 2, [1, 0], 0b11);
//@h props=C01,C02 tier=quick timeout=900 role=receiver-model args=--no-memory-safety-checks
//@assume Kani pointer checks off in this functional obligation (the same code runs with them on in the C03 obligations)
//@fn PacketReceiver::{handle_datagram, receive, advance_window, set_channel_base_id, try_unset_channel_base_id}, AssemblyWindow::{try_add, clear}
//@bound W=4, base 0; history of 2 packets; schedule shape: arrivals [1,1,0] (duplicate, then the older packet), receive() after each
shape!(o1_4_shape_n2_duplicate_then_older, 0, 2, [1, 1, 0], 0b111);
//@h props=C02,C01 tier=quick timeout=900 role=receiver-model args=--no-memory-safety-checks
//@assume Kani pointer checks off in this functional obligation (the same code runs with them on in the C03 obligations)
//@fn PacketReceiver::{handle_datagram, receive, advance_window, set_channel_base_id, try_unset_channel_base_id}, AssemblyWindow::{try_add, clear}
//@bound W=4, base 2^20-2; history of 3 packets; schedule shape: arrivals [2,0,1], receive() after each
shape!(o1_4_shape_n3_last_first, 0xFFFFE, 3, [2, 0, 1], 0b111);
//@h props=C01,C02 tier=quick timeout=900 role=receiver-model args=--no-memory-safety-checks
//@assume Kani pointer checks off in this functional obligation (the same code runs with them on in the C03 obligations)
//@fn PacketReceiver::{handle_datagram, receive, advance_window, set_channel_base_id, try_unset_channel_base_id}, AssemblyWindow::{try_add, clear}
//@bound W=4, base 2^20-2; history of 3 packets; schedule shape: arrivals [2,1] (the first packet never arrives: the window base stays before the wrap while a channel moves past it; then a late older packet), receive() after each
shape!(o1_4_shape_n3_first_lost_last_then_late, 0xFFFFE, 3, [2, 1], 0b11);
//@h props=C01,C02 tier=thorough timeout=1800 role=receiver-model args=--no-memory-safety-checks group=mem
//@assume Kani pointer checks off in this functional obligation (the same code runs with them on in the C03 obligations)
//@fn PacketReceiver::{handle_datagram, receive, advance_window, set_channel_base_id, try_unset_channel_base_id}, AssemblyWindow::{try_add, clear}
//@bound W=4, base 2^20-2; history of 3 packets; schedule shape: arrivals [1,2,0], receive() only at the end
shape!(o1_4_shape_n3_first_last_batched, 0xFFFFE, 3, [1, 2, 0], 0b000);
//@h props=C01,C02 tier=quick timeout=1800 role=receiver-model args=--no-memory-safety-checks
//@assume Kani pointer checks off in this functional obligation (the same code runs with them on in the C03 obligations)
//@fn PacketReceiver::{handle_datagram, receive, advance_window, set_channel_base_id, try_unset_channel_base_id}, AssemblyWindow::{try_add, clear}
//@bound W=4 completely used, base 2^20-3; history of 4 packets; schedule shape: arrivals [3,0,2] (the last slot of the window first, then the oldest, then a late older packet), receive() after each
shape!(o1_4_shape_n4_last_slot_then_oldest_then_late, 0xFFFFD, 4, [3, 0, 2], 0b111);
//@h props=C01,C02 tier=thorough timeout=1800 role=receiver-model args=--no-memory-safety-checks group=mem
//@assume Kani pointer checks off in this functional obligation (the same code runs with them on in the C03 obligations)
//@fn PacketReceiver::{handle_datagram, receive, advance_window, set_channel_base_id, try_unset_channel_base_id}, AssemblyWindow::{try_add, clear}
//@bound W=4 completely used, base 0; history of 4 packets; schedule shape: arrivals [3,1,0,2], receive() after each
shape!(o1_4_shape_n4_3102, 0, 4, [3, 1, 0, 2], 0b1111);
//@h props=C01,C02 tier=thorough timeout=1800 role=receiver-model args=--no-memory-safety-checks group=mem
//@assume Kani pointer checks off in this functional obligation (the same code runs with them on in the C03 obligations)
//@fn PacketReceiver::{handle_datagram, receive, advance_window, set_channel_base_id, try_unset_channel_base_id}, AssemblyWindow::{try_add, clear}
//@bound W=4 completely used, base 2^20-1; history of 4 packets; schedule shape: arrivals [2,3,0,1,2] (with a late duplicate), receive() after arrivals 2 and 4 and at the end
shape!(o1_4_shape_n4_23012, 0xFFFFF, 4, [2, 3, 0, 1, 2], 0b01010);

//@h props=C05,C01 tier=quick timeout=1800 role=receiver-inorder args=--no-memory-safety-checks
//@assume Kani pointer checks off in this functional obligation (the same code runs with them on in the C03 obligations)
//@fn PacketReceiver::{handle_datagram, receive, advance_window}, AssemblyWindow::{try_add, clear}
//@bound W=4, base 2^20-1; history of 3 packets (channels, modes, bytes any); ideal network: packet n arrives n-th; receive() after the second arrival or only at the end (any)
#[kani::proof]
#[kani::unwind(6)]
fn o5_3_in_order_arrivals_all_delivered_in_order() {
    let base = 0xFFFFF;
    let h = history3();
    let mut r = small(base, 1448 * 4);
    let mut log = LogSink::new();
    r.handle_datagram(datagram_of(base, 0, &h[0]));
    r.handle_datagram(datagram_of(base, 1, &h[1]));
    if kani::any() { r.receive(&mut log); }
    r.handle_datagram(datagram_of(base, 2, &h[2]));
    r.receive(&mut log);
    assert!(log.n == 3 && log.len_ok, "[C05] on an ideal network every packet is delivered exactly once");
    assert!(log.tag[0] == 0 && log.tag[1] == 1 && log.tag[2] == 2, "[C05] in global submission order, across channels");
    assert!(log.val[0] == h[0].byte && log.val[1] == h[1].byte && log.val[2] == h[2].byte, "[C05,C01] contents unaltered");
    assert!(r.base_id() == packet_id::add(base, 3), "[C05,C11] the receive window has moved past everything delivered");
    std::mem::forget(r);
}

// --- hostile input ---------------------------------------------------------------------------

fn hostile_datagram_short() -> frame::Datagram {
    frame::Datagram {
        sequence_id: kani::any::<u32>() & packet_id::MASK, channel_id: kani::any(),
        window_parent_lead: kani::any(), channel_parent_lead: kani::any(),
        fragment_id: kani::any(), fragment_id_last: kani::any(), data: Box::new([kani::any(), kani::any()]),
    }
}

pub(crate) struct NullSink { pub n: usize }
impl PacketSink for NullSink { fn send(&mut self, data: Box<[u8]>) { self.n += 1; std::mem::forget(data); } }

//@h props=C03,C06 tier=quick timeout=1800 role=receiver-hostile-1
//@fn PacketReceiver::{handle_datagram, receive, advance_window}, datagram_is_valid, AssemblyWindow::{try_add, clear}
//@bound W=4, base 2^20-2, receive limit 1448 (one fragment); ONE datagram with every field any (20-bit id as the codec produces, channel u8, leads/fragment ids u16, 2 payload bytes), then receive()
#[kani::proof]
#[kani::unwind(6)]
fn o3_2_one_hostile_datagram() {
    let base = 0xFFFFE;
    let mut r = small(base, 1448);
    let mut sink = NullSink { n: 0 };
    r.handle_datagram(hostile_datagram_short());
    r.receive(&mut sink);
    assert!(packet_id::is_valid(r.base_id()) && packet_id::sub(r.base_id(), base) <= 4, "[C03] window base stays a valid id within one window of the old base");
    assert!(assembly_window::verif_assembly_window::invariant(&r.assembly_window), "[C06] allocation accounting intact");
    assert!(sink.n <= 1);
    kani::cover!(sink.n == 1, "the hostile datagram was a deliverable packet");
    kani::cover!(r.base_id() != base, "window moved");
    std::mem::forget(r);
}

//@h props=C03,C11 tier=quick timeout=900 role=receiver-resync-any
//@fn PacketReceiver::{resynchronize, advance_window}
//@bound W=4, base 2^20-2, nothing received; resynchronize(ANY u32, as carried by a sync frame)
#[kani::proof]
#[kani::unwind(6)]
fn o3_2_resynchronize_any_u32() {
    let base = 0xFFFFE;
    let mut r = small(base, 1448);
    let next: u32 = kani::any();
    r.resynchronize(next);
    if packet_id::is_valid(next) && packet_id::sub(next, base) <= 4 {
        assert!(r.base_id() == next, "[C11] an empty window moves to the sender's next id");
    } else {
        assert!(r.base_id() == base, "[C03] ids that are not packet ids, or further than one window ahead, are ignored");
    }
    std::mem::forget(r);
}

//@h props=C03,C06,C01 tier=quick timeout=1800 role=receiver-hostile-2
//@fn PacketReceiver::{handle_datagram, receive, advance_window}, datagram_is_valid, AssemblyWindow::{try_add, clear}
//@bound W=4, base 0, receive limit 4 fragments; TWO single-fragment datagrams with ids base+{0..3}, channel in {0,1}, parent leads ANY u16 (inconsistent leads included), then receive()
#[kani::proof]
#[kani::unwind(7)]
fn o3_2_two_datagrams_hostile_leads() {
    let base = 0;
    let mut r = small(base, 1448 * 4);
    let mut sink = NullSink { n: 0 };
    let mut k = 0;
    while k < 2 {
        let mut d = hostile_datagram_short();
        kani::assume(d.sequence_id < 4 && d.channel_id < 2);
        d.fragment_id = 0;
        d.fragment_id_last = 0;
        r.handle_datagram(d);
        k += 1;
    }
    r.receive(&mut sink);
    // C06: whatever is still stored lies inside the window and is counted
    assert!(packet_id::sub(r.base_id(), base) <= 4);
    assert!(assembly_window::verif_assembly_window::invariant(&r.assembly_window), "[C06] allocation accounting intact");
    let mut i = 0u32;
    while i < 4 {
        let idx = (i & 3) as usize;
        let inside = packet_id::sub(i, r.base_id()) < 4 && packet_id::sub(i, base) >= packet_id::sub(r.base_id(), base);
        if r.data_entries[idx].data.is_some() {
            assert!(packet_id::sub(i, base) >= packet_id::sub(r.base_id(), base), "[C06] no packet data is kept for ids the window has passed");
        }
        let _ = inside;
        i += 1;
    }
    kani::cover!(sink.n == 2, "both delivered");
    std::mem::forget(r);
}

//@h props=C03,C06 tier=quick timeout=900 role=receiver-over-limit
//@fn PacketReceiver::{handle_datagram, receive}, AssemblyWindow::try_add
//@bound W=4, base 0, receive limit 1448: a first fragment whose header claims ANY number of fragments >= 2 (more than the limit allows), then receive()
#[kani::proof]
#[kani::unwind(7)]
fn o3_10_over_limit_packet_then_receive() {
    let mut r = small(0, 1448);
    let mut sink = NullSink { n: 0 };
    let last: u16 = kani::any();
    kani::assume(last >= 1);
    let d = frame::Datagram { sequence_id: 0, channel_id: 0, window_parent_lead: 0, channel_parent_lead: 0,
                              fragment_id: last, fragment_id_last: last, data: Box::new([1, 2]) };
    r.handle_datagram(d);
    assert!(assembly_window::verif_assembly_window::alloc_of(&r.assembly_window) == 0, "[C06] a packet over the limit allocates nothing");
    r.receive(&mut sink);
    assert!(sink.n == 0, "[C06,C03] nothing is delivered for a packet that was refused");
    std::mem::forget(r);
}

//@h props=C02,C11 tier=quick timeout=1800 role=receiver-resync args=--no-memory-safety-checks
//@assume Kani pointer checks off in this functional obligation (the same code runs with them on in the C03 obligations)
//@fn PacketReceiver::{handle_datagram, resynchronize, receive, advance_window}
//@bound W=4, base 2^20-2; history of 3 packets, ONE of them (any) arrived and was or was not yet handed to the application; then resynchronize(base+3) (the sender's next id)
#[kani::proof]
#[kani::unwind(6)]
fn o2_2_resync_stops_at_first_undelivered() {
    let base = 0xFFFFE;
    let h = history3();
    let mut r = small(base, 1448 * 4);
    let mut log = LogSink::new();
    let a: usize = kani::any();
    kani::assume(a < 3);
    r.handle_datagram(datagram_of(base, a, &h[a]));
    if kani::any() { r.receive(&mut log); }
    let got = log.n == 1;
    let base1 = r.base_id();
    r.resynchronize(packet_id::add(base, 3));
    let nb = r.base_id();
    if got && !h[0].reliable && !h[1].reliable && !h[2].reliable {
        // the situation in which a sender offers a packet-window resynchronisation: nothing Reliable outstanding
        assert!(nb == packet_id::add(base, 3), "[C11] with nothing awaiting delivery the window moves to the sender's next id");
    }
    if !got {
        // the arrived packet is still held: the window must not pass it
        assert!(packet_id::sub(nb, base) <= a as u32, "[C02,C11] resynchronisation stops at the first packet that still awaits delivery");
    }
    assert!(packet_id::sub(nb, base1) <= 3 && packet_id::sub(nb, base) <= 3);
    r.receive(&mut log);
    assert!(log.n <= 1 && log.len_ok);
    if log.n == 1 { assert!(log.tag[0] as usize == a && log.val[0] == h[a].byte, "[C01] contents unaltered"); }
    kani::cover!(!got && nb != base1, "window advanced up to a held packet");
    kani::cover!(got && nb == packet_id::add(base, 3), "window resynchronised");
    std::mem::forget(r);
}

//@h props=C06,C04 tier=quick timeout=1800 role=receiver-partial-release cbmc=--max-field-sensitivity-array-size+512
//@fn PacketReceiver::{handle_datagram, resynchronize, receive, advance_window}, AssemblyWindow::{try_add, clear}
//@bound W=4, base 2^20-2, receive limit 4 fragments; fragment 0 (1448 bytes) of a two-fragment Unreliable packet arrives, its second fragment never does; the window then passes it (a) by a sender resynchronisation or (b) by delivery of the next packet of the channel
#[kani::proof]
#[kani::unwind(6)]
fn o6_2_partial_packet_released_when_window_passes_it() {
    let base = 0xFFFFE;
    let mut r = small(base, 1448 * 4);
    let d = frame::Datagram { sequence_id: base, channel_id: 0, window_parent_lead: 0, channel_parent_lead: 0,
                              fragment_id: 0, fragment_id_last: 1, data: vec![0u8; MAX_FRAGMENT_SIZE].into_boxed_slice() };
    r.handle_datagram(d);
    assert!(assembly_window::verif_assembly_window::alloc_of(&r.assembly_window) == 2 * MAX_FRAGMENT_SIZE, "[C06] a partial packet is charged its fragment-rounded size");
    let mut sink = NullSink { n: 0 };
    if kani::any() {
        r.resynchronize(packet_id::add(base, 1));
    } else {
        let e = frame::Datagram { sequence_id: packet_id::add(base, 1), channel_id: 0, window_parent_lead: 0, channel_parent_lead: 0,
                                  fragment_id: 0, fragment_id_last: 0, data: Box::new([1, 2]) };
        r.handle_datagram(e);
        r.receive(&mut sink);
        assert!(sink.n == 1, "[C01] the later packet of the channel is delivered");
    }
    assert!(packet_id::sub(r.base_id(), base) >= 1, "[C11] the window moved past the abandoned packet");
    assert!(assembly_window::verif_assembly_window::alloc_of(&r.assembly_window) == 0, "[C06] memory of a packet the window has passed is released (otherwise later packets are refused although the sender respects the limit)");
    assert!(assembly_window::verif_assembly_window::invariant(&r.assembly_window));
    std::mem::forget(r);
}

//@file parent=src/half_connection/packet_receiver/mod.rs
// PacketReceiver against a reference model of the sent history (C01, C02, C05) and under hostile
// datagrams (C03, C06).
use super::*;

const CE: ChannelAdvEntry = ChannelAdvEntry { channel_id: 0, channel_parent_lead: 0 };
const WE: WindowAdvEntry = WindowAdvEntry { window_parent_lead: 0 };
const DE: DataEntry = DataEntry { data: None };
const CH: Channel = Channel { base_id: None, packet_count: 0 };

// Loop-free stand-in for PacketReceiver::new(4, base, max_alloc): same field values, 4-slot windows.
pub(crate) fn small(base_id: u32, max_alloc_ceil: usize) -> PacketReceiver {
    PacketReceiver {
        base_id,
        end_id: base_id,
        assembly_window: assembly_window::verif_assembly_window::small(max_alloc_ceil),
        receive_window_size: 4,
        receive_window_mask: 3,
        channel_entries: Box::new([CE; 4]),
        window_entries: Box::new([WE; 4]),
        data_entries: Box::new([DE; 4]),
        entry_flags: Box::new([0u64]),
        data_flags: Box::new([0u64]),
        channels: Box::new([CH; CHANNEL_COUNT]),
        channel_base_markers: Box::new([None; 4]),
        channel_ready_flags: 0,
        window_ready_flag: false,
    }
}

pub(crate) struct LogSink {
    pub n: usize,
    pub tag: [u8; 6],
    pub val: [u8; 6],
    pub len_ok: bool,
}

impl LogSink {
    pub fn new() -> Self { Self { n: 0, tag: [0xFF; 6], val: [0; 6], len_ok: true } }
}

impl PacketSink for LogSink {
    fn send(&mut self, data: Box<[u8]>) {
        if data.len() != 2 { self.len_ok = false; }
        else if self.n < 6 { self.tag[self.n] = data[0]; self.val[self.n] = data[1]; }
        self.n += 1;
    }
}

// --- reference model of the sender's history -------------------------------------------------

#[derive(Clone, Copy)]
struct Sent { ch: u8, reliable: bool, byte: u8, wpl: u16, cpl: u16 }

fn any_sent() -> Sent {
    let ch: u8 = kani::any();
    kani::assume(ch < 2);
    Sent { ch, reliable: kani::any(), byte: kani::any(), wpl: 0, cpl: 0 }
}

// Leads follow the sender rule (decided on the real PacketSender by o5_1_*): distance to the latest
// Reliable packet sent before, window-wide and per channel; 0 if there is none.
fn history2() -> [Sent; 2] {
    let h0 = any_sent();
    let mut h1 = any_sent();
    if h0.reliable { h1.wpl = 1; if h0.ch == h1.ch { h1.cpl = 1; } }
    [h0, h1]
}

fn history3() -> [Sent; 3] {
    let [h0, h1] = history2();
    let mut h2 = any_sent();
    if h1.reliable { h2.wpl = 1; } else if h0.reliable { h2.wpl = 2; }
    if h1.reliable && h1.ch == h2.ch { h2.cpl = 1; } else if h0.reliable && h0.ch == h2.ch { h2.cpl = 2; }
    [h0, h1, h2]
}

fn datagram_of(base: u32, i: usize, s: &Sent) -> frame::Datagram {
    frame::Datagram {
        sequence_id: packet_id::add(base, i as u32), channel_id: s.ch,
        window_parent_lead: s.wpl, channel_parent_lead: s.cpl,
        fragment_id: 0, fragment_id_last: 0, data: Box::new([i as u8, s.byte]),
    }
}

fn pos(log: &LogSink, tag: u8) -> usize {
    // position of a tag in the delivery log (6 = not delivered)
    if log.n > 0 && log.tag[0] == tag { 0 } else if log.n > 1 && log.tag[1] == tag { 1 } else if log.n > 2 && log.tag[2] == tag { 2 } else if log.n > 3 && log.tag[3] == tag { 3 } else { 6 }
}

// Oracle over everything delivered so far, two-packet history (C01 + the safety half of C02).
fn check2(base: u32, h: &[Sent; 2], log: &LogSink, r: &PacketReceiver) {
    assert!(log.len_ok, "[C01,C04] delivered length equals submitted length");
    assert!(log.n <= 2, "[C01] nothing is delivered twice (more deliveries than packets sent)");
    if log.n >= 1 { assert!(log.tag[0] < 2 && log.val[0] == h[log.tag[0] as usize].byte, "[C01] only submitted packets are delivered, contents unaltered"); }
    if log.n == 2 {
        assert!(log.tag[1] < 2 && log.val[1] == h[log.tag[1] as usize].byte, "[C01] only submitted packets are delivered, contents unaltered");
        assert!(log.tag[0] != log.tag[1], "[C01] nothing is delivered twice");
        if h[0].ch == h[1].ch { assert!(log.tag[0] == 0, "[C01] per-channel delivery follows submission order"); }
    }
    let (p0, p1) = (pos(log, 0), pos(log, 1));
    if p1 < 6 && h[0].reliable && h[0].ch == h[1].ch {
        assert!(p0 < p1, "[C02,C01] a Reliable packet is delivered before any later packet of its channel");
    }
    // the window never moves past a Reliable packet that has not been delivered
    if h[0].reliable && p0 == 6 { assert!(r.base_id() == base, "[C02] the receive window never passes an undelivered Reliable packet"); }
    if h[1].reliable && p1 == 6 { assert!(packet_id::sub(packet_id::add(base, 1), r.base_id()) < 4, "[C02] the receive window never passes an undelivered Reliable packet"); }
    assert!(packet_id::sub(r.base_id(), base) <= 2, "[C01] window base stays within the ids sent");
}

fn schedule_n2_k2(base: u32) {
    let h = history2();
    let mut r = small(base, 1448 * 4);
    let mut log = LogSink::new();
    let a0: usize = kani::any();
    let a1: usize = kani::any();
    kani::assume(a0 < 2 && a1 < 2);
    r.handle_datagram(datagram_of(base, a0, &h[a0]));
    if kani::any() {
        r.receive(&mut log);
        check2(base, &h, &log, &r);
    }
    r.handle_datagram(datagram_of(base, a1, &h[a1]));
    r.receive(&mut log);
    check2(base, &h, &log, &r);
    kani::cover!(log.n == 2, "everything delivered");
    kani::cover!(log.n == 1 && a0 == a1, "a duplicate was dropped");
    kani::cover!(log.n == 0, "the only arrival is blocked behind a missing Reliable parent");
    std::mem::forget(r);
}

//@h props=C01,C02 tier=quick timeout=1800 role=receiver-model
//@fn PacketReceiver::{handle_datagram, receive, advance_window, set_channel_base_id, try_unset_channel_base_id}, AssemblyWindow::{try_add, clear}, datagram_is_valid
//@bound W=4 slots, base id 0; history of 2 packets (channel in {0,1}, reliable or not, one symbolic payload byte, leads per the sender rule); 2 arrivals each choosing ANY packet of the history (loss, duplication, reordering), receive() after the first arrival or not (any), receive() at the end
#[kani::proof]
#[kani::unwind(6)]
fn o1_4_receiver_model_n2_k2_base0() { schedule_n2_k2(0); }

//@h props=C02,C01 tier=quick timeout=1800 role=receiver-model
//@fn PacketReceiver::{handle_datagram, receive, advance_window, set_channel_base_id, try_unset_channel_base_id}, AssemblyWindow::{try_add, clear}, datagram_is_valid
//@bound W=4 slots, base id 2^20-1 (the second packet's id wraps to 0); history of 2 packets; 2 arrivals of ANY packet of the history; receive() cadence any
#[kani::proof]
#[kani::unwind(6)]
fn o1_4_receiver_model_n2_k2_wrap() { schedule_n2_k2(0xFFFFF); }

//@h props=C01,C02 tier=thorough timeout=3000 role=receiver-model
//@fn PacketReceiver::{handle_datagram, receive, advance_window, set_channel_base_id, try_unset_channel_base_id}, AssemblyWindow::{try_add, clear}
//@bound W=4 slots, base id 2^20-2; history of 3 packets; 3 arrivals of ANY packet of the history; receive() after every arrival
#[kani::proof]
#[kani::unwind(6)]
fn o1_4_receiver_model_n3_k3_wrap() {
    let base = 0xFFFFE;
    let h = history3();
    let mut r = small(base, 1448 * 4);
    let mut log = LogSink::new();
    let mut k = 0;
    while k < 3 {
        let a: usize = kani::any();
        kani::assume(a < 3);
        r.handle_datagram(datagram_of(base, a, &h[a]));
        r.receive(&mut log);
        k += 1;
    }
    assert!(log.len_ok && log.n <= 3, "[C01] nothing is delivered twice");
    let (p0, p1, p2) = (pos(&log, 0), pos(&log, 1), pos(&log, 2));
    let mut i = 0;
    while i < log.n && i < 3 {
        assert!(log.tag[i] < 3 && log.val[i] == h[log.tag[i] as usize].byte, "[C01] only submitted packets are delivered, contents unaltered");
        i += 1;
    }
    if log.n >= 2 { assert!(log.tag[0] != log.tag[1], "[C01] nothing is delivered twice"); }
    if log.n == 3 { assert!(log.tag[0] != log.tag[2] && log.tag[1] != log.tag[2], "[C01] nothing is delivered twice"); }
    if p0 < 6 && p1 < 6 && h[0].ch == h[1].ch { assert!(p0 < p1, "[C01] per-channel delivery follows submission order"); }
    if p0 < 6 && p2 < 6 && h[0].ch == h[2].ch { assert!(p0 < p2, "[C01] per-channel delivery follows submission order"); }
    if p1 < 6 && p2 < 6 && h[1].ch == h[2].ch { assert!(p1 < p2, "[C01] per-channel delivery follows submission order"); }
    if p1 < 6 && h[0].reliable && h[0].ch == h[1].ch { assert!(p0 < p1, "[C02,C01] a Reliable packet is delivered before any later packet of its channel"); }
    if p2 < 6 && h[0].reliable && h[0].ch == h[2].ch { assert!(p0 < p2, "[C02,C01] a Reliable packet is delivered before any later packet of its channel"); }
    if p2 < 6 && h[1].reliable && h[1].ch == h[2].ch { assert!(p1 < p2, "[C02,C01] a Reliable packet is delivered before any later packet of its channel"); }
    if h[0].reliable && p0 == 6 { assert!(r.base_id() == base, "[C02] the receive window never passes an undelivered Reliable packet"); }
    kani::cover!(log.n == 3, "everything delivered");
    std::mem::forget(r);
}

//@h props=C05,C01 tier=quick timeout=1800 role=receiver-inorder
//@fn PacketReceiver::{handle_datagram, receive, advance_window}, AssemblyWindow::{try_add, clear}
//@bound W=4, base 2^20-1; history of 3 packets (channels, modes, bytes any); ideal network: packet n arrives n-th; receive() after the second arrival or only at the end (any)
#[kani::proof]
#[kani::unwind(6)]
fn o5_3_in_order_arrivals_all_delivered_in_order() {
    let base = 0xFFFFF;
    let h = history3();
    let mut r = small(base, 1448 * 4);
    let mut log = LogSink::new();
    r.handle_datagram(datagram_of(base, 0, &h[0]));
    r.handle_datagram(datagram_of(base, 1, &h[1]));
    if kani::any() { r.receive(&mut log); }
    r.handle_datagram(datagram_of(base, 2, &h[2]));
    r.receive(&mut log);
    assert!(log.n == 3 && log.len_ok, "[C05] on an ideal network every packet is delivered exactly once");
    assert!(log.tag[0] == 0 && log.tag[1] == 1 && log.tag[2] == 2, "[C05] in global submission order, across channels");
    assert!(log.val[0] == h[0].byte && log.val[1] == h[1].byte && log.val[2] == h[2].byte, "[C05,C01] contents unaltered");
    assert!(r.base_id() == packet_id::add(base, 3), "[C05,C11] the receive window has moved past everything delivered");
    std::mem::forget(r);
}

// --- hostile input ---------------------------------------------------------------------------

fn hostile_datagram_short() -> frame::Datagram {
    frame::Datagram {
        sequence_id: kani::any::<u32>() & packet_id::MASK, channel_id: kani::any(),
        window_parent_lead: kani::any(), channel_parent_lead: kani::any(),
        fragment_id: kani::any(), fragment_id_last: kani::any(), data: Box::new([kani::any(), kani::any()]),
    }
}

pub(crate) struct NullSink { pub n: usize }
impl PacketSink for NullSink { fn send(&mut self, data: Box<[u8]>) { self.n += 1; std::mem::forget(data); } }

//@h props=C03,C06 tier=quick timeout=1800 role=receiver-hostile-1
//@fn PacketReceiver::{handle_datagram, receive, advance_window}, datagram_is_valid, AssemblyWindow::{try_add, clear}
//@bound W=4, base 2^20-2, receive limit 1448 (one fragment); ONE datagram with every field any (20-bit id as the codec produces, channel u8, leads/fragment ids u16, 2 payload bytes), then receive()
#[kani::proof]
#[kani::unwind(6)]
fn o3_2_one_hostile_datagram() {
    let base = 0xFFFFE;
    let mut r = small(base, 1448);
    let mut sink = NullSink { n: 0 };
    r.handle_datagram(hostile_datagram_short());
    r.receive(&mut sink);
    assert!(packet_id::is_valid(r.base_id()) && packet_id::sub(r.base_id(), base) <= 4, "[C03] window base stays a valid id within one window of the old base");
    assert!(assembly_window::verif_assembly_window::invariant(&r.assembly_window), "[C06] allocation accounting intact");
    assert!(sink.n <= 1);
    kani::cover!(sink.n == 1, "the hostile datagram was a deliverable packet");
    kani::cover!(r.base_id() != base, "window moved");
    std::mem::forget(r);
}

//@h props=C03,C11 tier=quick timeout=900 role=receiver-resync-any
//@fn PacketReceiver::{resynchronize, advance_window}
//@bound W=4, base 2^20-2, nothing received; resynchronize(ANY u32, as carried by a sync frame)
#[kani::proof]
#[kani::unwind(6)]
fn o3_2_resynchronize_any_u32() {
    let base = 0xFFFFE;
    let mut r = small(base, 1448);
    let next: u32 = kani::any();
    r.resynchronize(next);
    if packet_id::is_valid(next) && packet_id::sub(next, base) <= 4 {
        assert!(r.base_id() == next, "[C11] an empty window moves to the sender's next id");
    } else {
        assert!(r.base_id() == base, "[C03] ids that are not packet ids, or further than one window ahead, are ignored");
    }
    std::mem::forget(r);
}

//@h props=C03,C06,C01 tier=quick timeout=1800 role=receiver-hostile-2
//@fn PacketReceiver::{handle_datagram, receive, advance_window}, datagram_is_valid, AssemblyWindow::{try_add, clear}
//@bound W=4, base 0, receive limit 4 fragments; TWO single-fragment datagrams with ids base+{0..3}, channel in {0,1}, parent leads ANY u16 (inconsistent leads included), then receive()
#[kani::proof]
#[kani::unwind(7)]
fn o3_2_two_datagrams_hostile_leads() {
    let base = 0;
    let mut r = small(base, 1448 * 4);
    let mut sink = NullSink { n: 0 };
    let mut k = 0;
    while k < 2 {
        let mut d = hostile_datagram_short();
        kani::assume(d.sequence_id < 4 && d.channel_id < 2);
        d.fragment_id = 0;
        d.fragment_id_last = 0;
        r.handle_datagram(d);
        k += 1;
    }
    r.receive(&mut sink);
    // C06: whatever is still stored lies inside the window and is counted
    assert!(packet_id::sub(r.base_id(), base) <= 4);
    assert!(assembly_window::verif_assembly_window::invariant(&r.assembly_window), "[C06] allocation accounting intact");
    let mut i = 0u32;
    while i < 4 {
        let idx = (i & 3) as usize;
        let inside = packet_id::sub(i, r.base_id()) < 4 && packet_id::sub(i, base) >= packet_id::sub(r.base_id(), base);
        if r.data_entries[idx].data.is_some() {
            assert!(packet_id::sub(i, base) >= packet_id::sub(r.base_id(), base), "[C06] no packet data is kept for ids the window has passed");
        }
        let _ = inside;
        i += 1;
    }
    kani::cover!(sink.n == 2, "both delivered");
    std::mem::forget(r);
}

//@h props=C03,C06 tier=quick timeout=900 role=receiver-over-limit
//@fn PacketReceiver::{handle_datagram, receive}, AssemblyWindow::try_add
//@bound W=4, base 0, receive limit 1448: a first fragment whose header claims ANY number of fragments >= 2 (more than the limit allows), then receive()
#[kani::proof]
#[kani::unwind(7)]
fn o3_10_over_limit_packet_then_receive() {
    let mut r = small(0, 1448);
    let mut sink = NullSink { n: 0 };
    let last: u16 = kani::any();
    kani::assume(last >= 1);
    let d = frame::Datagram { sequence_id: 0, channel_id: 0, window_parent_lead: 0, channel_parent_lead: 0,
                              fragment_id: last, fragment_id_last: last, data: Box::new([1, 2]) };
    r.handle_datagram(d);
    assert!(assembly_window::verif_assembly_window::alloc_of(&r.assembly_window) == 0, "[C06] a packet over the limit allocates nothing");
    r.receive(&mut sink);
    assert!(sink.n == 0, "[C06,C03] nothing is delivered for a packet that was refused");
    std::mem::forget(r);
}

//@h props=C02,C11 tier=quick timeout=1800 role=receiver-resync
//@fn PacketReceiver::{handle_datagram, resynchronize, receive, advance_window}
//@bound W=4, base 2^20-2; history of 3 packets, ONE of them (any) arrived and was or was not yet handed to the application; then resynchronize(base+3) (the sender's next id)
#[kani::proof]
#[kani::unwind(6)]
fn o2_2_resync_stops_at_first_undelivered() {
    let base = 0xFFFFE;
    let h = history3();
    let mut r = small(base, 1448 * 4);
    let mut log = LogSink::new();
    let a: usize = kani::any();
    kani::assume(a < 3);
    r.handle_datagram(datagram_of(base, a, &h[a]));
    if kani::any() { r.receive(&mut log); }
    let got = log.n == 1;
    let base1 = r.base_id();
    r.resynchronize(packet_id::add(base, 3));
    let nb = r.base_id();
    if got && !h[0].reliable && !h[1].reliable && !h[2].reliable {
        // the situation in which a sender offers a packet-window resynchronisation: nothing Reliable outstanding
        assert!(nb == packet_id::add(base, 3), "[C11] with nothing awaiting delivery the window moves to the sender's next id");
    }
    if !got {
        // the arrived packet is still held: the window must not pass it
        assert!(packet_id::sub(nb, base) <= a as u32, "[C02,C11] resynchronisation stops at the first packet that still awaits delivery");
    }
    assert!(packet_id::sub(nb, base1) <= 3 && packet_id::sub(nb, base) <= 3);
    r.receive(&mut log);
    assert!(log.n <= 1 && log.len_ok);
    if log.n == 1 { assert!(log.tag[0] as usize == a && log.val[0] == h[a].byte, "[C01] contents unaltered"); }
    kani::cover!(!got && nb != base1, "window advanced up to a held packet");
    kani::cover!(got && nb == packet_id::add(base, 3), "window resynchronised");
    std::mem::forget(r);
}

//@h props=C06,C04 tier=quick timeout=1800 role=receiver-partial-release
//@fn PacketReceiver::{handle_datagram, resynchronize, receive, advance_window}, AssemblyWindow::{try_add, clear}
//@bound W=4, base 2^20-2, receive limit 4 fragments; fragment 0 (1448 bytes) of a two-fragment Unreliable packet arrives, its second fragment never does; the window then passes it (a) by a sender resynchronisation or (b) by delivery of the next packet of the channel
#[kani::proof]
#[kani::unwind(6)]
fn o6_2_partial_packet_released_when_window_passes_it() {
    let base = 0xFFFFE;
    let mut r = small(base, 1448 * 4);
    let d = frame::Datagram { sequence_id: base, channel_id: 0, window_parent_lead: 0, channel_parent_lead: 0,
                              fragment_id: 0, fragment_id_last: 1, data: vec![0u8; MAX_FRAGMENT_SIZE].into_boxed_slice() };
    r.handle_datagram(d);
    assert!(assembly_window::verif_assembly_window::alloc_of(&r.assembly_window) == 2 * MAX_FRAGMENT_SIZE, "[C06] a partial packet is charged its fragment-rounded size");
    let mut sink = NullSink { n: 0 };
    if kani::any() {
        r.resynchronize(packet_id::add(base, 1));
    } else {
        let e = frame::Datagram { sequence_id: packet_id::add(base, 1), channel_id: 0, window_parent_lead: 0, channel_parent_lead: 0,
                                  fragment_id: 0, fragment_id_last: 0, data: Box::new([1, 2]) };
        r.handle_datagram(e);
        r.receive(&mut sink);
        assert!(sink.n == 1, "[C01] the later packet of the channel is delivered");
    }
    assert!(packet_id::sub(r.base_id(), base) >= 1, "[C11] the window moved past the abandoned packet");
    assert!(assembly_window::verif_assembly_window::alloc_of(&r.assembly_window) == 0, "[C06] memory of a packet the window has passed is released (otherwise later packets are refused although the sender respects the limit)");
    assert!(assembly_window::verif_assembly_window::invariant(&r.assembly_window));
    std::mem::forget(r);
}

//@file parent=src/half_connection/recv_rate_set.rs
// X_recv_set (RFC 5348 section 4.3): never empty once initialised, whatever the feedback.
use super::*;

pub(crate) fn any_set() -> RecvRateSet {
    // any set of 1..=2 entries with timestamps not in the future
    let mut s = RecvRateSet::new();
    let two: bool = kani::any();
    s.entries.push(RecvEntry { value: kani::any(), timestamp_ms: kani::any(), is_initial: kani::any() });
    if two {
        s.entries.push(RecvEntry { value: kani::any(), timestamp_ms: kani::any(), is_initial: false });
    }
    s
}

pub(crate) fn timestamps_le(s: &RecvRateSet, now: u64) -> bool {
    let mut ok = true;
    let mut i = 0;
    while i < s.entries.len() { if s.entries[i].timestamp_ms > now { ok = false; } i += 1; }
    ok
}

//@h props=C03,C14 tier=quick timeout=600 role=recv-rate-set-step
//@fn RecvRateSet::{rate_limited_update, loss_increase_update, data_limited_update, max, reset, replace_max}
//@bound one update from ANY set of 1..2 entries (values any, timestamps <= now); now < 2^40, recv_rate any u32, rtt_ms any in 0..2^32 (0 included: the smoothed RTT rounds to 0 ms for sub-millisecond samples)
#[kani::proof]
#[kani::unwind(5)]
fn o3_6_recv_rate_set_never_empty() {
    let mut s = any_set();
    let now: u64 = kani::any();
    kani::assume(now < 1 << 40);
    let mut i = 0;
    while i < s.entries.len() { kani::assume(s.entries[i].timestamp_ms <= now); i += 1; }
    let rate: u32 = kani::any();
    let rtt_ms: u64 = kani::any();
    kani::assume(rtt_ms < 1 << 32);
    let which: u8 = kani::any();
    kani::assume(which < 3);
    let m = if which == 0 { s.rate_limited_update(now, rate, rtt_ms) }
            else if which == 1 { s.loss_increase_update(now, rate) }
            else { s.data_limited_update(now, rate) };
    assert!(s.entries.len() >= 1, "[C03,C14] X_recv_set stays non-empty");
    assert!(m == s.max());
    kani::cover!(which == 0 && rtt_ms == 0, "rate-limited feedback with an RTT estimate of 0 ms");
    std::mem::forget(s);
}

#!/bin/sh
# Offline setup: nothing to build ahead of time. Each check builds its own scratch copy with cargo kani.
# Warm the third-party dependency cache (rand) so that the first check does not pay for it.
cd "$(dirname "$0")"
command -v cargo-kani >/dev/null 2>&1 || { echo "cargo-kani not found" >&2; exit 1; }
python3 vlib/runner.py C01 --only o1_1_id_roundtrip >/dev/null 2>&1 || true
exit 0

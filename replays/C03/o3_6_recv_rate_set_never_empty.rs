// Counterexample for harness half_connection::recv_rate_set::verif_recv_rate_set::o3_6_recv_rate_set_never_empty (property C03)
// failing checks:
//   std::option::unwrap_failed | called `Option::unwrap()` on a `None` value  @ option.rs:2248
// native replay: {"dev": {"kani_concrete_playback_o3_6_recv_rate_set_never_empty_10413840134280637116": "panic: src/half_connection/recv_rate_set.rs:80:49: called `Option::unwrap()` on a `None` value"}, "release": {"kani_concrete_playback_o3_6_recv_rate_set_never_empty_10413840134280637116": "panic: src/half_connection/recv_rate_set.rs:80:49: called `Option::unwrap()` on a `None` value"}}
// replay: cd /verif && ./check C03 --replay /verif/replays/C03/o3_6_recv_rate_set_never_empty.rs
//@replay harness=o3_6_recv_rate_set_never_empty

/// Test generated for harness `half_connection::recv_rate_set::verif_recv_rate_set::o3_6_recv_rate_set_never_empty` 
///
/// Check for `assertion`: "called `Option::unwrap()` on a `None` value"

#[test]
fn kani_concrete_playback_o3_6_recv_rate_set_never_empty_10413840134280637116() {
    let concrete_vals: Vec<Vec<u8>> = vec![
        // 1
        vec![1],
        // 1084714113
        vec![129, 108, 167, 64],
        // 8388610ul
        vec![2, 0, 128, 0, 0, 0, 0, 0],
        // 1
        vec![1],
        // 1118041474
        vec![130, 245, 163, 66],
        // 8388610ul
        vec![2, 0, 128, 0, 0, 0, 0, 0],
        // 8388610ul
        vec![2, 0, 128, 0, 0, 0, 0, 0],
        // 1109601409
        vec![129, 44, 35, 66],
        // 0ul
        vec![0, 0, 0, 0, 0, 0, 0, 0],
        // 0
        vec![0],
    ];
    kani::concrete_playback_run(concrete_vals, o3_6_recv_rate_set_never_empty);
}


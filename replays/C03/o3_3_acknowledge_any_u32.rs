// Counterexample for harness half_connection::packet_sender::verif_packet_sender::o3_3_acknowledge_any_u32 (property C03)
// failing checks:
//   std::option::unwrap_failed | called `Option::unwrap()` on a `None` value  @ option.rs:2248
// native replay: {"dev": {"kani_concrete_playback_o3_3_acknowledge_any_u32_13757323583880857114": "panic: src/half_connection/packet_sender.rs:252:66: called `Option::unwrap()` on a `None` value", "kani_concrete_playback_o3_3_acknowledge_any_u32_9553680328455134420": "no-failure", "kani_concrete_playback_o3_3_acknowledge_any_u32_7319222558665912790": "no-failure"}, "release": {"kani_concrete_playback_o3_3_acknowledge_any_u32_13757323583880857114": "panic: src/half_connection/packet_sender.rs:252:66: called `Option::unwrap()` on a `None` value", "kani_concrete_playback_o3_3_acknowledge_any_u32_9553680328455134420": "no-failure", "kani_concrete_playback_o3_3_acknowledge_any_u32_7319222558665912790": "no-failure"}}
// replay: cd /verif && ./check C03 --replay /verif/replays/C03/o3_3_acknowledge_any_u32.rs
//@replay harness=o3_3_acknowledge_any_u32

/// Test generated for harness `half_connection::packet_sender::verif_packet_sender::o3_3_acknowledge_any_u32` 
///
/// Check for `assertion`: "called `Option::unwrap()` on a `None` value"

#[test]
fn kani_concrete_playback_o3_3_acknowledge_any_u32_13757323583880857114() {
    let concrete_vals: Vec<Vec<u8>> = vec![
        // 0
        vec![0, 0, 0, 0],
        // 3
        vec![3],
        // 0
        vec![0],
        // 2148532223
        vec![255, 255, 15, 128],
    ];
    kani::concrete_playback_run(concrete_vals, o3_3_acknowledge_any_u32);
}

/// Test generated for harness `half_connection::packet_sender::verif_packet_sender::o3_3_acknowledge_any_u32` 
///
/// Check for `cover`: "partial acknowledgement"

#[test]
fn kani_concrete_playback_o3_3_acknowledge_any_u32_9553680328455134420() {
    let concrete_vals: Vec<Vec<u8>> = vec![
        // 0
        vec![0, 0, 0, 0],
        // 1
        vec![1],
        // 0
        vec![0],
        // 1048575
        vec![255, 255, 15, 0],
    ];
    kani::concrete_playback_run(concrete_vals, o3_3_acknowledge_any_u32);
}

/// Test generated for harness `half_connection::packet_sender::verif_packet_sender::o3_3_acknowledge_any_u32` 
///
/// Check for `cover`: "full acknowledgement"

#[test]
fn kani_concrete_playback_o3_3_acknowledge_any_u32_7319222558665912790() {
    let concrete_vals: Vec<Vec<u8>> = vec![
        // 0
        vec![0, 0, 0, 0],
        // 1
        vec![1],
        // 0
        vec![0],
        // 0
        vec![0, 0, 0, 0],
    ];
    kani::concrete_playback_run(concrete_vals, o3_3_acknowledge_any_u32);
}


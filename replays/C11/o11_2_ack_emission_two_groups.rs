// Counterexample for harness half_connection::verif_half_connection::o11_2_ack_emission_two_groups (property C11)
// failing checks:
//   half_connection::verif_half_connection::ack_emission | assertion failed: sink.last_len == 15 + 9 * groups &&
((sink.head[9] as usize) << 8 | sink.head[10] as usize) == groups  @ half_connection.rs:138
// replay: cd /verif && ./check C11 --replay /verif/replays/C11/o11_2_ack_emission_two_groups.rs
//@replay harness=o11_2_ack_emission_two_groups
// native replay: {"dev": {"outcome": "build-failed", "log": "   Compiling libc v0.2.189\n   Compiling zerocopy v0.8.57\n   Compiling cfg-if v1.0.4\n   Compiling md5 v0.7.0\n   Compiling getrandom v0.2.17\n   Compiling rand_core v0.6.4\n   Compiling ppv-lite86 v0.2.21\n   Compiling rand_chacha v0.3.1\n   Compiling rand v0.8.8\n   Compiling uflow v0.7.1 (/var/tmp/uflow-verif/C11-quick.27937)\nerror[E0765]: unterminated double quote string\n   --> /var/tmp/uflow-verif/C11-quick.27937/verif_harness/half_connection.rs:235:66\n    |\n235 |   ((sink.head[9] as usize) << 8 | sink.head[10] as usize) == groups\"\n    |  __________________________________________________________________^\n236 | | ///\n237 | | /// # Warning\n238 | | ///\n...   |\n262 | |\n    | |_^\n\nFor more information about this error, try `rustc --explain E0765`.\nerror: could not compile `uflow` (lib test) due to 1 previous error\n"}, "release": {"outcome": "build-failed", "log": "   Compiling libc v0.2.189\n   Compiling zerocopy v0.8.57\n   Compiling cfg-if v1.0.4\n   Compiling md5 v0.7.0\n   Compiling getrandom v0.2.17\n   Compiling rand_core v0.6.4\n   Compiling ppv-lite86 v0.2.21\n   Compiling rand_chacha v0.3.1\n   Compiling rand v0.8.8\n   Compiling uflow v0.7.1 (/var/tmp/uflow-verif/C11-quick.27937)\nerror[E0765]: unterminated double quote string\n   --> /var/tmp/uflow-verif/C11-quick.27937/verif_harness/half_connection.rs:235:66\n    |\n235 |   ((sink.head[9] as usize) << 8 | sink.head[10] as usize) == groups\"\n    |  __________________________________________________________________^\n236 | | ///\n237 | | /// # Warning\n238 | | ///\n...   |\n262 | |\n    | |_^\n\nFor more information about this error, try `rustc --explain E0765`.\nerror: could not compile `uflow` (lib test) due to 1 previous error\n"}}

/// Test generated for harness `half_connection::verif_half_connection::o11_2_ack_emission_two_groups` 
///
/// Check for `assertion`: "assertion failed: sink.last_len == 15 + 9 * groups &&
((sink.head[9] as usize) << 8 | sink.head[10] as usize) == groups"
///
/// # Warning
///
/// Concrete playback tests combined with stubs or contracts is highly
/// experimental, and subject to change.
///
/// The original harness has stubs which are not applied to this test.
/// This may cause a mismatch of non-deterministic values if the stub
/// creates any non-deterministic value.
/// The execution path may also differ, which can be used to refine the stub
/// logic.

#[test]
fn kani_concrete_playback_o11_2_ack_emission_two_groups_6878829378571584754() {
    let concrete_vals: Vec<Vec<u8>> = vec![
        // 1
        vec![1],
        // 0
        vec![0],
        // 1
        vec![1],
        // 15
        vec![15, 0, 0, 0, 0, 0, 0, 0],
    ];
    kani::concrete_playback_run(concrete_vals, o11_2_ack_emission_two_groups);
}


// Counterexample for harness half_connection::packet_receiver::verif_packet_receiver::o3_2_two_datagrams_hostile_leads (property ALL)
// failing checks:
//   half_connection::packet_receiver::PacketReceiver::receive::<half_connection::packet_receiver::verif_packet_receiver::NullSink> | assertion failed: self.data_flags[flags_index] & flag_bit == 0  @ mod.rs:392
// replay: cd /verif && ./check ALL --replay /verif/replays/ALL/o3_2_two_datagrams_hostile_leads.rs
//@replay harness=o3_2_two_datagrams_hostile_leads


// Counterexample for harness half_connection::packet_receiver::assembly_window::fragment_buffer::verif_fragment_buffer::o19_1_finalize_dealloc_layout (property C19)
// failing checks:
//   __rust_dealloc | rust_dealloc must be called on an object whose allocated size matches its layout  @ kani_lib.c:85
// native replay not applicable (none): verdict class KANI-ONLY, triaged by reading
// replay: cd /verif && ./check C19 --replay /verif/replays/C19/o19_1_finalize_dealloc_layout.rs
//@replay harness=o19_1_finalize_dealloc_layout

/// Test generated for harness `half_connection::packet_receiver::assembly_window::fragment_buffer::verif_fragment_buffer::o19_1_finalize_dealloc_layout` 
///
/// Check for `assertion`: "rust_dealloc must be called on an object whose allocated size matches its layout"

#[test]
fn kani_concrete_playback_o19_1_finalize_dealloc_layout_4839832285099345213() {
    let concrete_vals: Vec<Vec<u8>> = vec![
        // 3ul
        vec![3, 0, 0, 0, 0, 0, 0, 0],
        // 0
        vec![0],
        // 0
        vec![0],
        // 0
        vec![0],
        // 0ul
        vec![0, 0, 0, 0, 0, 0, 0, 0],
        // 0
        vec![0],
        // 0
        vec![0],
    ];
    kani::concrete_playback_run(concrete_vals, o19_1_finalize_dealloc_layout);
}


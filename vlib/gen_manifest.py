#!/usr/bin/env python3
"""Regenerates /verif/MANIFEST.json from the table below (run after adding a property's check)."""
import json, os, sys
sys.path.insert(0, os.path.dirname(os.path.abspath(__file__)))
import manifest_data as D

VERIF = os.path.dirname(os.path.dirname(os.path.abspath(__file__)))

TECH = ('bounded symbolic execution of the real Rust code with Kani 0.68 (MIR -> CBMC 6.11 -> CaDiCaL SAT): '
        'inputs/pre-states are kani::any(), the property is an assertion, verdict = solver over all values inside the stated bounds; '
        'counterexamples replayed natively (dev+release) before reporting')

checks = []
for pid in sorted(D.CLAIMED):
    c = D.CLAIMED[pid]
    checks.append({
        'property_id': pid,
        'quick_cmd': './check %s --tier quick' % pid,
        'thorough_cmd': './check %s --tier thorough' % pid,
        'evidence_file': '/verif/evidence/%s.json' % pid,
        'replay_cmd_template': './check %s --replay {path}' % pid,
        'engine': 'kani-cbmc',
        'level_claimed': {'category': 'model_checking', 'text': c['text'], 'design_ref': c.get('ref', 'DESIGN.md section 5, ' + pid)},
        'level_note': c['note'],
        'technique': c.get('technique', TECH),
    })

na = [{'property_id': pid, 'reason': D.NOT_APPLICABLE[pid]} for pid in sorted(D.NOT_APPLICABLE)]
allp = [json.loads(l)['id'] for l in open(os.path.join(VERIF, 'properties.jsonl'))]
missing = [p for p in allp if p not in D.CLAIMED and p not in D.NOT_APPLICABLE]
assert not missing, missing
assert not (set(D.CLAIMED) & set(D.NOT_APPLICABLE))

m = {
    'version': 1,
    'setup_cmd': './setup.sh',
    'hooks': {
        'guard': 'cfg(kani)',
        'enable': 'none in /repo: every check copies /repo\'s working tree to a scratch directory, appends `#[cfg(kani)] mod verif_*;` '
                  'lines and the cfg(kani)-only environment substitutions listed in each evidence file, and runs `cargo kani` there '
                  '(Kani itself sets --cfg kani); /repo carries no hook commits',
        'baseline_off_cmd': 'cd /repo && cargo test --workspace --no-fail-fast --offline',
        'source_commits': [],
        'add_only': True,
    },
    'engines': [
        {'name': 'kani-cbmc', 'path': '/verif/vlib/runner.py', 'serves_properties': sorted(D.CLAIMED),
         'kind_free_text': 'Kani 0.68.0 bounded model checker (CBMC 6.11.0, CaDiCaL) over the real crate + harness modules in /verif/harness'},
    ],
    'checks': checks,
    'not_applicable': na,
    'notes': D.NOTES,
}
json.dump(m, open(os.path.join(VERIF, 'MANIFEST.json'), 'w'), indent=1)
print('MANIFEST.json: %d checks, %d not_applicable' % (len(checks), len(na)))

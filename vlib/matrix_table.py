#!/usr/bin/env python3
"""Builds the seed/obligation table of DESIGN.md 10.7 from logs/seedmatrix/<seed>-<tier>-<prop>.txt (written by seed_matrix.sh)."""
import json, os, re, glob, sys
V = os.path.dirname(os.path.dirname(os.path.abspath(__file__)))
rows = []
for d in sorted(os.listdir(os.path.join(V, 'seeded'))):
    meta = json.load(open(os.path.join(V, 'seeded', d, 'meta.json')))
    prop = meta['breaks_property']
    res = {}
    for tier in ('quick', 'thorough'):
        f = os.path.join(V, 'logs', 'seedmatrix', '%s-%s-%s.txt' % (d, tier, prop))
        if not os.path.exists(f):
            continue
        txt = open(f).read()
        hs = re.findall(r'^VIOLATION property=\S+ replay=.*?/([A-Za-z0-9_]+)\.rs', txt, flags=re.M)
        hs += re.findall(r'^ALSO-FAILING property=\S+ harness=(\S+)', txt, flags=re.M)
        inc = re.findall(r'^INCONCLUSIVE property=\S+ harness=(\S+)', txt, flags=re.M)
        ok = re.search(r'^OK property=', txt, flags=re.M) is not None
        res[tier] = (sorted(set(hs)), inc, ok)
    rows.append((d, prop, meta['change'], res))
print('| seed | property | change | quick tier | thorough tier |')
print('|---|---|---|---|---|')
n_q = n_t = 0
for d, prop, change, res in rows:
    def cell(t):
        if t not in res: return 'not run' if t == 'thorough' and res.get('quick', ([],))[0] else '-'
        hs, inc, ok = res[t]
        if hs: return 'caught: ' + ', '.join('`%s`' % h for h in hs[:4]) + (' (+%d)' % (len(hs) - 4) if len(hs) > 4 else '')
        if inc: return 'inconclusive: ' + ', '.join(inc[:2])
        return '**missed**' if ok else '?'
    q, t = cell('quick'), cell('thorough')
    n_q += q.startswith('caught'); n_t += q.startswith('caught') or t.startswith('caught')
    print('| %s | %s | %s | %s | %s |' % (d, prop, change.replace('|', '/')[:170], q, t))
print()
print('%d of %d seeded changes are caught by the quick tier of their property, %d by quick or thorough.' % (n_q, len(rows), n_t))

#!/usr/bin/env python3
"""uflow verification runner: bounded symbolic execution of /repo's real code with Kani/CBMC.

Per run: copy /repo's working tree to a scratch directory, inject the #[cfg(kani)] harness
modules (and the environment substitutions they need), run `cargo kani`, parse the per-check
verdicts, replay counterexamples natively, match them against /verif/known_findings.json, and
write /verif/evidence/<id>.json.

Exit codes: 0 = property held on everything explored (known findings are reported and do not
fail the run); 1 = violation (line `VIOLATION property=<id> replay=<path>` on stdout);
2 = inconclusive (time-out, out of memory, harness does not compile, non-reproducing
counterexample).  2 is never a pass.
"""
import json, os, re, shutil, subprocess, sys, time, hashlib, signal, resource

VERIF = os.path.dirname(os.path.dirname(os.path.abspath(__file__)))
REPO = os.environ.get('VERIF_REPO', '/repo')
HARNESS_DIR = os.path.join(VERIF, 'harness')
SCRATCH_ROOT = os.environ.get('VERIF_SCRATCH_ROOT', '/var/tmp/uflow-verif')
CACHE = os.environ.get('VERIF_CACHE', '/var/tmp/uflow-verif-cache')
KANI_HOME = os.path.expanduser('~/.kani/kani-0.68.0')
def _default_jobs():
    # memory-bound: the heaviest obligations peak at about 10 GB of RSS in CBMC; one job per 8 GB of RAM, at most 8
    try:
        kb = int([l for l in open('/proc/meminfo') if l.startswith('MemTotal')][0].split()[1])
        by_mem = max(2, kb // (8 * 1024 * 1024))
    except Exception:
        by_mem = 4
    return min(8, os.cpu_count() or 4, by_mem)


NCPU = int(os.environ.get('VERIF_JOBS', str(_default_jobs())))
# CBMC's symbolic execution propagates constants through heap buffers (Vec/VecDeque/Rc allocations are byte arrays)
# only when the array is split into per-element symbols; the default limit of 64 bytes leaves every heap read
# symbolic even for concrete inputs.  DESIGN.md section 10.8.
DEFAULT_FS = os.environ.get('VERIF_FS', '512')
# Kani's assertion-reachability checks make CBMC emit a full counterexample trace (megabytes of JSON each) for every
# reachable check: ~50 s of pure output per harness.  They only serve the UNREACHABLE annotation; vacuity is guarded
# by kani::cover! witnesses instead.  VERIF_REACH=1 turns them back on.
REACH = [] if os.environ.get('VERIF_REACH') == '1' else ['--no-assertion-reach-checks']
REPLAY_MAX = int(os.environ.get('VERIF_REPLAY_MAX', '2'))
ALT_OK = os.environ.get('VERIF_REPO', '/repo') != '/repo'
NO_REPLAY = os.environ.get('VERIF_NO_REPLAY') == '1' and ALT_OK
# Runs against another tree (seeded changes, pre-fix trees) never touch /verif/evidence, /verif/replays or the
# log directory of the registered checks: everything goes under logs/alt-<tag>/.
ALT = os.environ.get('VERIF_TAG') or (None if REPO == '/repo' else re.sub(r'[^A-Za-z0-9]+', '_', REPO).strip('_'))
MEM_LIMIT_GB = int(os.environ.get('VERIF_MEM_GB', '28'))


def log(*a):
    print(*a, file=sys.stderr, flush=True)


# ----------------------------------------------------------------------------------------------
# Harness annotations
# ----------------------------------------------------------------------------------------------
# In every harness file:
#   //@file parent=<path of the uflow source file the module is appended to> [mod=<name>]
#   //@inject <file> :: <regex> :: <replacement>     (environment substitution, cfg(kani) only)
# Before every harness function:
#   //@h props=C01,C02 tier=quick|thorough timeout=<s> [group=<name>] [args=<extra kani args>]
#   //@  role=<known-finding role key> [replay=native|none] [unwind_violation=1]
#   //@fn <functions of uflow symbolically executed>
#   //@bound <what is bounded and how>
#   //@assume <each assumption / shim the harness relies on>
#   //@cover <n>   (number of kani::cover! witnesses that must come back SATISFIED; default: all)

class Harness:
    def __init__(self):
        self.name = None
        self.file = None
        self.module = None   # rust path of the harness module
        self.props = []
        self.tier = 'quick'
        self.timeout = 300
        self.group = 'default'
        self.args = ''
        self.role = None
        self.replay = 'native'
        self.unwind_violation = False
        self.fns = []
        self.bound = []
        self.assume = []
        self.canary = False
        self.ignore = None
        self.unwindset = None
        self.also_quick = []  # properties (besides the primary one) whose quick tier runs this obligation
        self.cbmc = ''       # extra CBMC arguments ('+' separated), e.g. --max-field-sensitivity-array-size+512
        self.expect = 'pass'

    @property
    def full(self):
        return self.module + '::' + self.name


def parse_harness_files():
    files = []
    harnesses = []
    for fn in sorted(os.listdir(HARNESS_DIR)):
        if not fn.endswith('.rs'):
            continue
        path = os.path.join(HARNESS_DIR, fn)
        meta = {'path': path, 'name': fn[:-3], 'parent': None, 'mod': 'verif_' + fn[:-3], 'inject': []}
        cur = None
        lines = open(path).read().split('\n')
        for i, line in enumerate(lines):
            s = line.strip()
            if s.startswith('//@file'):
                for kv in s.split()[1:]:
                    k, v = kv.split('=', 1)
                    meta[k] = v
            elif s.startswith('//@inject'):
                parts = [p.strip() for p in s[len('//@inject'):].split(' :: ')]
                meta['inject'].append(parts)
            elif s.startswith('//@h'):
                cur = Harness()
                cur.file = meta
                cur.ignore = meta.get('ignore')
                for kv in s.split()[1:]:
                    k, v = kv.split('=', 1)
                    _set(cur, k, v)
            elif s.startswith('//@fn') and cur:
                cur.fns += [x.strip() for x in s[5:].split(',') if x.strip()]
            elif s.startswith('//@bound') and cur:
                cur.bound.append(s[8:].strip())
            elif s.startswith('//@assume') and cur:
                cur.assume.append(s[9:].strip())
            elif s.startswith('//@ ') and cur:
                for kv in s.split()[1:]:
                    k, v = kv.split('=', 1)
                    _set(cur, k, v)
            elif cur is not None:
                m = re.match(r'\s*(pub(\([a-z]+\))?\s+)?fn\s+([A-Za-z0-9_]+)\s*\(', line)
                m2 = re.match(r'\s*[a-z_0-9]+!\(\s*([A-Za-z0-9_]+)\s*[,)]', line)
                if m or m2:
                    cur.name = m.group(3) if m else m2.group(1)
                    harnesses.append(cur)
                    cur = None
        files.append(meta)
    for m in files:
        if not m['parent']:
            raise SystemExit('harness file %s lacks //@file parent=' % m['path'])
        p = m['parent']
        assert p.startswith('src/') and p.endswith('.rs')
        modpath = p[4:-3]
        if modpath.endswith('/mod'):
            modpath = modpath[:-4]
        if modpath == 'lib':
            modpath = ''
        m['rust_parent'] = modpath.replace('/', '::')
    for h in harnesses:
        rp = h.file['rust_parent']
        h.module = (rp + '::' if rp else '') + h.file['mod']
    return files, harnesses


def _set(h, k, v):
    if k == 'props':
        h.props = v.split(',')
    elif k == 'timeout':
        h.timeout = int(v)
    elif k == 'unwind_violation':
        h.unwind_violation = v not in ('0', 'false')
    elif k == 'canary':
        h.canary = v not in ('0', 'false')
    elif k == 'args':
        h.args = v.replace('+', ' ')
    elif k == 'cbmc':
        h.cbmc = v.replace('+', ' ')
    elif k == 'also_quick':
        h.also_quick = v.split(',')
    else:
        setattr(h, k, v)


# ----------------------------------------------------------------------------------------------
# Scratch copy and injection
# ----------------------------------------------------------------------------------------------

class Scratch:
    def __init__(self, tag):
        os.makedirs(SCRATCH_ROOT, exist_ok=True)
        self.dir = os.path.join(SCRATCH_ROOT, '%s.%d' % (tag, os.getpid()))
        if os.path.exists(self.dir):
            shutil.rmtree(self.dir)
        self.keep = os.environ.get('VERIF_KEEP') == '1'

    def create(self, files):
        t0 = time.time()
        subprocess.check_call(['rsync', '-a', '--exclude', 'target', '--exclude', '.git', REPO + '/', self.dir + '/'])
        hd = os.path.join(self.dir, 'verif_harness')
        os.makedirs(hd)
        self.injected = []
        for m in files:
            dst = os.path.join(hd, m['name'] + '.rs')
            shutil.copy(m['path'], dst)
            parent = os.path.join(self.dir, m['parent'])
            if not os.path.exists(parent):
                raise Inconclusive('harness %s: parent %s does not exist in the tree' % (m['name'], m['parent']))
            with open(parent, 'a') as f:
                f.write('\n#[cfg(kani)]\n#[path = "%s"]\npub(crate) mod %s;\n' % (dst, m['mod']))
            for (fn, rx, repl) in m['inject']:
                p = os.path.join(self.dir, fn)
                src = open(p).read()
                new, n = re.subn(rx, repl.replace('\\n', '\n'), src, flags=re.M)
                if n == 0:
                    raise Inconclusive('substitution %r did not apply to %s (source changed?)' % (rx, fn))
                open(p, 'w').write(new)
                self.injected.append('%s: s/%s/%s/ (%d site(s))' % (fn, rx, repl, n))
        # warm dependency cache (only third-party crates are ever reused; uflow is always rebuilt
        # because the scratch path is part of its package id)
        cache_t = os.path.join(CACHE, 'kani-target')
        if os.path.isdir(cache_t):
            shutil.copytree(cache_t, os.path.join(self.dir, 'target', 'kani'), symlinks=True)
        with open(os.path.join(self.dir, '.cargo-config-marker'), 'w') as f:
            f.write('')
        log('[scratch] %s created in %.1fs' % (self.dir, time.time() - t0))

    def save_cache(self):
        cache_t = os.path.join(CACHE, 'kani-target')
        src = os.path.join(self.dir, 'target', 'kani')
        if os.path.isdir(cache_t) or not os.path.isdir(src):
            return
        try:
            os.makedirs(CACHE, exist_ok=True)
            tmp = cache_t + '.tmp.%d' % os.getpid()
            shutil.copytree(src, tmp, symlinks=True,
                            ignore=lambda d, names: [n for n in names if 'uflow' in n])
            os.rename(tmp, cache_t)
        except Exception as e:
            log('[cache] not saved: %s' % e)

    def cleanup(self):
        if not self.keep and os.path.isdir(self.dir):
            shutil.rmtree(self.dir, ignore_errors=True)


class Inconclusive(Exception):
    pass


def base_env():
    env = dict(os.environ)
    env['CARGO_NET_OFFLINE'] = 'true'
    env.pop('RUSTFLAGS', None)
    env['CARGO_TERM_COLOR'] = 'never'
    return env


def _limits():
    lim = MEM_LIMIT_GB * (1 << 30)
    try:
        resource.setrlimit(resource.RLIMIT_AS, (lim, lim))
    except Exception:
        pass
    os.setsid()


def run_cmd(cmd, cwd, timeout, env=None, limit=True):
    """Run a command in its own process group; kill the whole group on time-out."""
    p = subprocess.Popen(cmd, cwd=cwd, env=env or base_env(), stdout=subprocess.PIPE, stderr=subprocess.STDOUT,
                         preexec_fn=_limits if limit else os.setsid, text=True, errors='replace')
    try:
        out, _ = p.communicate(timeout=timeout)
        return p.returncode, out, False
    except subprocess.TimeoutExpired:
        try:
            os.killpg(p.pid, signal.SIGKILL)
        except Exception:
            pass
        out, _ = p.communicate()
        return -9, out, True


# ----------------------------------------------------------------------------------------------
# Kani
# ----------------------------------------------------------------------------------------------

def kani_group(scratch, hs, jobs, logdir, tag):
    """Run one `cargo kani` invocation for a list of harnesses that share extra arguments."""
    out_json = os.path.join(scratch.dir, 'kani-%s.json' % tag)
    if os.path.exists(out_json):
        os.remove(out_json)
    tmax = max(h.timeout for h in hs)
    cmd = ['cargo', 'kani', '-Z', 'stubbing', '-Z', 'unstable-options', '--exact'] + REACH + [
           '--output-format', 'terse', '--export-json', out_json,
           '--harness-timeout', '%ds' % tmax, '-j', str(max(1, min(jobs, len(hs))))]
    for h in hs:
        cmd += ['--harness', h.full]
    extra = hs[0].args.split()
    cb = effective_cbmc(hs[0]).split()
    if hs[0].unwindset:
        ids = resolve_unwindset(scratch, hs, logdir, tag)
        cb = cb + ['--unwindset', ','.join(ids)]
    if cb:
        extra = extra + ['--cbmc-args'] + cb
        for h in hs:
            h.args_resolved = list(extra)
    cbmc_extra = []
    if '--cbmc-args' in extra:
        i = extra.index('--cbmc-args')
        cbmc_extra = extra[i:]
        extra = extra[:i]
    cmd += extra + cbmc_extra
    # overall wall cap: harnesses run in waves of `jobs`
    waves = (len(hs) + jobs - 1) // max(1, jobs)
    wall = 240 + waves * (tmax + 30)
    t0 = time.time()
    rc, out, timed_out = run_cmd(cmd, scratch.dir, wall)
    dt = time.time() - t0
    with open(os.path.join(logdir, 'kani-%s.log' % tag), 'w') as f:
        f.write('$ ' + ' '.join(cmd) + '\n' + out)
    res = {'cmd': ' '.join(cmd), 'rc': rc, 'wall_s': dt, 'timed_out': timed_out, 'harness': {}}
    if 'error: could not compile' in out or 'error[E' in out:
        errs = [l for l in out.split('\n') if l.startswith('error')]
        raise Inconclusive('scratch crate does not compile under cfg(kani) (harness out of date or tree broken): ' + '; '.join(errs[:5]))
    data = None
    if os.path.exists(out_json):
        try:
            data = json.load(open(out_json))
        except Exception as e:
            data = None
    if data is None:
        raise Inconclusive('kani produced no result file (rc=%s, timed_out=%s); see %s' % (rc, timed_out, logdir))
    stats = {c['harness_id']: (c.get('cbmc_stats') or {}) for c in data.get('cbmc', [])}
    errors = {e['harness_id']: e for e in data.get('error_details', [])}
    for r in data['verification_results']['results']:
        hid = r['harness_id']
        res['harness'][hid] = {
            'status': r['status'], 'duration_ms': r.get('duration_ms', 0), 'checks': r.get('checks', []),
            'stats': stats.get(hid, {}), 'error': errors.get(hid, {}),
        }
    for h in hs:
        if h.full not in res['harness']:
            res['harness'][h.full] = {'status': 'Missing', 'duration_ms': 0, 'checks': [], 'stats': {}, 'error': {}}
    res['kani_version'] = data.get('metadata', {}).get('kani_version')
    res['cbmc_version'] = data.get('tools', {}).get('cbmc')
    return res


def effective_cbmc(h):
    cb = h.cbmc.split()
    if '--max-field-sensitivity-array-size' not in cb and DEFAULT_FS and DEFAULT_FS != '64':
        cb = ['--max-field-sensitivity-array-size', DEFAULT_FS] + cb
    return ' '.join(cb)


def attributed(c, prop):
    """Assertion messages may carry a tag "[C05,C12] ...": such a check only counts for the listed
    properties.  Untagged checks (Kani's default panic/overflow/index checks, untagged assertions)
    count for every property the harness serves."""
    tags = re.findall(r'\[(C\d+(?:\s*,\s*C\d+)*)\]', c.get('description', ''))
    if not tags:
        return True
    ids = set()
    for t in tags:
        ids.update(x.strip() for x in t.split(','))
    return prop in ids


def resolve_unwindset(scratch, hs, logdir, tag):
    """Per-loop unwinding bounds are written as <mangled-name-suffix>.<loop#>:<n>; CBMC wants the full
    mangled loop id, which is looked up in the goto binary (codegen-only pass + cbmc --show-loops)."""
    cmd = ['cargo', 'kani', '-Z', 'stubbing', '--only-codegen', '--exact']
    for h in hs:
        cmd += ['--harness', h.full]
    rc, out, to = run_cmd(cmd, scratch.dir, 900)
    if rc != 0:
        raise Inconclusive('codegen-only pass for unwindset failed: ' + out[-400:])
    import glob
    want = [w.strip() for w in hs[0].unwindset.split(',') if w.strip()]
    found = {}
    for h in hs:
        files = sorted(glob.glob(os.path.join(scratch.dir, 'target', 'kani', '*', 'debug', 'build', 'uflow', '*', 'out', '*%s.out' % h.name)), key=os.path.getmtime)
        if not files:
            raise Inconclusive('no goto binary found for %s' % h.name)
        rc, out, to = run_cmd(['cbmc', '--show-loops', files[-1]], scratch.dir, 300)
        loops = re.findall(r'^Loop (\S+):', out, flags=re.M)
        for w in want:
            suffix, n = w.rsplit(':', 1)
            hits = [l for l in loops if l.endswith(suffix)]
            if not hits:
                raise Inconclusive('unwindset: no loop matching %s in %s (source changed?)' % (suffix, h.name))
            for l in hits:
                found[l] = n
    return ['%s:%s' % (k, v) for k, v in sorted(found.items())]


def classify(h, r, prop=None):
    """-> (verdict, failing_checks, notes).  verdict in pass|fail|inconclusive"""
    checks = r['checks']
    if h.ignore:
        # documented tool artefacts (DESIGN.md section 9): reported in the evidence, never counted
        ign = [c for c in checks if c['status'] == 'Failure' and re.search(h.ignore, check_key(c))]
        r['ignored'] = [check_key(c) for c in ign]
        checks = [c for c in checks if c not in ign]
    elsewhere = []
    if prop and prop != 'ALL':
        # a failing assertion tagged for other properties does not count for this one (it is reported by their checks)
        elsewhere = [c for c in checks if c['status'] == 'Failure' and not attributed(c, prop)]
        checks = [c for c in checks if c['status'] != 'Failure' or attributed(c, prop)]
    st = r['status']
    err = r.get('error', {})
    failing = [c for c in checks if c['status'] in ('Failure',)]
    unwind_fail = [c for c in failing if c.get('category') == 'unwind' or 'unwinding assertion' in c.get('description', '')]
    real_fail = [c for c in failing if c not in unwind_fail]
    undet = [c for c in checks if c['status'] in ('Undetermined',)]
    covers = [c for c in checks if c.get('category') == 'cover']
    unsat_covers = [c for c in covers if c['status'] not in ('Satisfied',)]
    notes = []
    if st == 'Missing' or (not checks):
        et = err.get('error_type') or err.get('exit_status') or st
        return 'inconclusive', [], ['no checks reported (%s): time-out, out of memory or CBMC error' % et]
    if st != 'Success' and h.ignore and r.get('ignored') and not failing:
        st = 'Success'
    if st != 'Success' and elsewhere and not failing:
        st = 'Success'
        notes.append('failing checks belong to other properties: ' + '; '.join(sorted(set(c.get('description', '')[:60] for c in elsewhere)))[:300])
    if real_fail:
        return 'fail', real_fail, notes
    if unwind_fail:
        if h.unwind_violation:
            return 'fail', unwind_fail, ['loop bound = claimed maximum work exceeded']
        return 'inconclusive', unwind_fail, ['unwinding assertion failed (bound too small for this tree): ' + '; '.join(sorted(set('%s@%s:%s' % (c.get('function'), os.path.basename(c.get('location', {}).get('file', '?')), c.get('location', {}).get('line', '?')) for c in unwind_fail)))[:600]]
    if st != 'Success':
        odd = [c for c in checks if c['status'] not in ('Success', 'Satisfied', 'Unreachable', 'Failure', 'Unsatisfiable')]
        return 'inconclusive', odd, ['kani status %s without failing check (%s): %s' % (st, err.get('error_type'), '; '.join('%s=%s' % (check_key(c), c['status']) for c in odd[:6]))]
    if unsat_covers:
        return 'inconclusive', unsat_covers, ['vacuity witness not satisfied: ' + '; '.join(c['description'] for c in unsat_covers)]
    return 'pass', [], notes


def check_key(c):
    fn = c.get('function', '')
    d = c.get('description', '')
    return '%s | %s' % (fn, d)


# ----------------------------------------------------------------------------------------------
# Replay
# ----------------------------------------------------------------------------------------------

def playback_tests(scratch, h, logdir):
    """Re-run one failing harness with concrete playback and return the generated unit tests."""
    cmd = ['cargo', 'kani', '-Z', 'stubbing', '-Z', 'unstable-options', '--exact', '-Z', 'concrete-playback',
           '--concrete-playback=print', '--harness-timeout', '%ds' % (h.timeout * 2), '--harness', h.full]
    extra = getattr(h, 'args_resolved', None) or h.args.split()
    cmd += extra
    rc, out, to = run_cmd(cmd, scratch.dir, h.timeout * 2 + 240)
    with open(os.path.join(logdir, 'playback-%s.log' % h.name), 'w') as f:
        f.write('$ ' + ' '.join(cmd) + '\n' + out)
    tests = re.findall(r'```\n(.*?)```', out, flags=re.S)
    seen = set()
    uniq = []
    for t in tests:
        m = re.search(r'fn (kani_concrete_playback_[A-Za-z0-9_]+)', t)
        key = m.group(1) if m else t
        if key not in seen:
            seen.add(key)
            uniq.append(t)
    return uniq


def native_replay(scratch, h, tests, logdir, watchdog=20):
    """Append the generated tests to the scratch copy of the harness file and run them natively in
    the dev profile (the one Kani models) and in the release profile."""
    hf = os.path.join(scratch.dir, 'verif_harness', h.file['name'] + '.rs')
    names = []
    with open(hf, 'a') as f:
        for t in tests:
            f.write('\n' + t + '\n')
            m = re.search(r'fn (kani_concrete_playback_[A-Za-z0-9_]+)', t)
            if m:
                names.append(m.group(1))
    results = {}
    sep = '\x1f'
    pb = os.path.join(KANI_HOME, 'playback')
    for profile in ('dev', 'release'):
        flags = ['-Zunstable-options', '-Ztrim-diagnostic-paths=no', '-Zhuman_readable_cgu_names', '-Zalways-encode-mir',
                 '--cfg=kani', '-Zcrate-attr=feature(register_tool)', '-Zcrate-attr=register_tool(kanitool)',
                 '--sysroot', pb, '-L', os.path.join(pb, 'lib'), '--extern', 'force:kani',
                 '--extern', 'noprelude,nounused:std=' + os.path.join(pb, 'lib', 'libstd.rlib')]
        if profile == 'dev':
            flags = ['-Coverflow-checks=on'] + flags
        env = base_env()
        env['CARGO_ENCODED_RUSTFLAGS'] = sep.join(flags)
        env['RUSTC'] = os.path.join(KANI_HOME, 'bin', 'kani-compiler')
        env['RUST_BACKTRACE'] = '0'
        cargo = os.path.join(KANI_HOME, 'toolchain', 'bin', 'cargo')
        cmd = [cargo, 'test', '--lib', '--target', 'x86_64-unknown-linux-gnu', '-Zhost-config', '-Ztarget-applies-to-host',
               '--config=host.rustflags=["--cfg=kani_host"]']
        if profile == 'release':
            cmd.append('--release')
        # build first (no watchdog on the build)
        rc, out, to = run_cmd(cmd + ['--no-run'], scratch.dir, 900, env=env, limit=False)
        if rc != 0:
            results[profile] = {'outcome': 'build-failed', 'log': out[-2000:]}
            continue
        per = {}
        for n in names:
            rc, out, to = run_cmd(cmd + ['--', '--exact', '--test-threads', '1', h.module + '::' + n], scratch.dir, watchdog + 60, env=env, limit=False)
            if to:
                per[n] = 'hang(>%ds)' % (watchdog + 60)
            elif 'test result: FAILED' in out:
                m = re.search(r"panicked at ([^\n]*)\n([^\n]*)", out)
                per[n] = 'panic: ' + ((m.group(1) + ' ' + m.group(2)) if m else '?')
            elif 'test result: ok. 1 passed' in out:
                per[n] = 'no-failure'
            else:
                per[n] = 'unknown rc=%s' % rc
            with open(os.path.join(logdir, 'replay-%s-%s-%s.log' % (h.name, profile, n[-8:])), 'w') as f:
                f.write(out)
        results[profile] = per
    return names, results


# ----------------------------------------------------------------------------------------------
# Known findings
# ----------------------------------------------------------------------------------------------

def load_known():
    p = os.path.join(VERIF, 'known_findings.json')
    if not os.path.exists(p):
        return []
    return json.load(open(p)).get('findings', [])


def match_known(known, prop, h, c):
    """A failing check is a known finding when an entry with status 'known' names this property (or
    lists it under also_properties), this harness role and a regular expression matching the failing
    check (function | description).  'fixed:' entries suppress nothing."""
    key = check_key(c)
    for k in known:
        if not k.get('status', '').startswith('known'):
            continue
        if prop != k['property'] and prop not in k.get('also_properties', []):
            continue
        if k.get('role') and k['role'] != (h.role or h.name):
            continue
        if re.search(k['check'], key):
            return k
    return None


# ----------------------------------------------------------------------------------------------
# Main check
# ----------------------------------------------------------------------------------------------

def select(harnesses, prop, tier, only=None):
    sel = []
    for h in harnesses:
        if prop != 'ALL' and prop not in h.props:
            continue
        if only and not re.search(only, h.name):
            continue
        if tier == 'quick' and not only:
            # quick tier: the cheap obligations whose PRIMARY property (first in the list) this is;
            # the thorough tier runs every obligation that lists the property
            if h.tier != 'quick' or (prop != 'ALL' and h.props[0] != prop and prop not in h.also_quick):
                continue
        sel.append(h)
    return sel


def run_check(prop, tier, seed, only=None, write_evidence=True):
    t_start = time.time()
    files, harnesses = parse_harness_files()
    sel = select(harnesses, prop, tier, only)
    if not sel:
        raise SystemExit('no harnesses for %s tier %s' % (prop, tier))
    # seed: only permutes the order in which harnesses are scheduled
    sel.sort(key=lambda h: hashlib.sha256(('%d:%s' % (seed, h.name)).encode()).hexdigest())
    sel.sort(key=lambda h: -h.timeout)
    logdir = os.path.join(VERIF, 'logs', '%s-%s' % (prop, tier)) if not ALT else os.path.join(VERIF, 'logs', 'alt-' + ALT, '%s-%s' % (prop, tier))
    shutil.rmtree(logdir, ignore_errors=True)
    os.makedirs(logdir, exist_ok=True)
    scratch = Scratch('%s-%s%s' % (prop, tier, ('-' + ALT) if ALT else ''))
    known = load_known()
    verdicts = {}
    results = {}
    violations = []
    skipped_replays = []
    known_hits = []
    inconclusive = []
    group_cmds = []
    versions = {}
    try:
        scratch.create(files)
        groups = {}
        for h in sel:
            groups.setdefault((h.group, h.args, (h.unwindset or '') + '|' + effective_cbmc(h)), []).append(h)
        first = True
        for gi, ((gname, gargs, _uw), hs) in enumerate(sorted(groups.items())):
            tag = '%d-%s' % (gi, re.sub(r'[^A-Za-z0-9]+', '_', gname))
            log('[kani] group %s: %d harness(es) %s' % (gname, len(hs), gargs))
            # groups named heavy* hold obligations that need 20+ GB each: two at a time; mem*: about 10 GB each: three at a time
            res = kani_group(scratch, hs, 2 if gname.startswith('heavy') else (min(3, NCPU) if gname.startswith('mem') else NCPU), logdir, tag)
            if first:
                scratch.save_cache()
                first = False
            group_cmds.append(res['cmd'])
            versions = {'kani': res.get('kani_version'), 'cbmc': res.get('cbmc_version')}
            for h in hs:
                r = res['harness'][h.full]
                results[h.name] = r
                v, failing, notes = classify(h, r, prop)
                if h.canary:
                    # vacuity canary: a twin ending in assert!(false) must FAIL
                    if v == 'fail':
                        v, failing, notes = 'pass', [], ['canary failed as required']
                    elif v == 'pass':
                        v, notes = 'inconclusive', ['canary twin passed: harness group is vacuous']
                verdicts[h.name] = (v, failing, notes)
                st_ = r.get('stats') or {}
                log('  %-44s %-12s %6.1fs symex=%ss solve=%ss vcc=%s %s' % (h.name, v, r['duration_ms'] / 1000.0, st_.get('runtime_symex_s', '?'),
                    st_.get('runtime_decision_procedure_s', '?'), st_.get('vccs_remaining', st_.get('vccs_generated', '?')), '; '.join(notes)))
        # ---- failures: known / replay / violation
        for h in sel:
            v, failing, notes = verdicts[h.name]
            if v == 'inconclusive':
                inconclusive.append((h, notes))
            if v != 'fail':
                continue
            new = []
            for c in failing:
                k = match_known(known, prop, h, c)
                if k:
                    known_hits.append((h, c, k))
                else:
                    new.append(c)
            if not new:
                continue
            # replay before reporting (at most REPLAY_MAX harnesses are replayed natively: once a violation has been
            # confirmed the verdict of the run is settled; the others are listed without replay)
            if len(violations) >= REPLAY_MAX:
                skipped_replays.append((h, new))
                continue
            if NO_REPLAY:
                # detection sweeps over seeded trees only (vlib/seed_matrix.sh): the solver's verdict is recorded without the
                # native replay; never used by the registered commands
                violations.append((h, new, '(not replayed: VERIF_NO_REPLAY)/%s.rs' % h.name, {'mode': 'skipped'}))
                continue
            rep_dir = os.path.join(VERIF, 'replays', prop) if not ALT else os.path.join(logdir, 'replays')
            os.makedirs(rep_dir, exist_ok=True)
            rep_path = os.path.join(rep_dir, h.name + '.rs')
            replay_info = {'mode': h.replay}
            tests = playback_tests(scratch, h, logdir)
            body = ['// Counterexample for harness %s (property %s)' % (h.full, prop),
                    '// failing checks:'] + ['//   ' + check_key(c) + '  @ %s:%s' % (os.path.basename(c.get('location', {}).get('file', '?')), c.get('location', {}).get('line', '?')) for c in new]
            body += ['// replay: cd /verif && ./check %s --replay %s' % (prop, rep_path), '//@replay harness=%s' % h.name]
            n_head = len(body)
            body += [''] + tests
            reproduced = None
            if h.replay == 'native' and tests:
                names, rr = native_replay(scratch, h, tests, logdir)
                replay_info['native'] = rr
                outcomes = []
                for prof, per in rr.items():
                    if isinstance(per, dict) and 'outcome' not in per:
                        outcomes += list(per.values())
                reproduced = any(o.startswith('panic') or o.startswith('hang') for o in outcomes)
                body.insert(n_head, '// native replay: ' + json.dumps(rr))
            elif h.replay != 'native':
                body.insert(n_head, '// native replay not applicable (%s): verdict class KANI-ONLY, triaged by reading' % h.replay)
            with open(rep_path, 'w') as f:
                f.write('\n'.join(body) + '\n')
            if h.replay == 'native' and reproduced is False:
                inconclusive.append((h, ['counterexample did not reproduce natively (encoding or shim wrong?): %s' % json.dumps(replay_info)]))
                continue
            violations.append((h, new, rep_path, replay_info))
    except Inconclusive as e:
        inconclusive.append((None, [str(e)]))
    finally:
        scratch.cleanup()

    wall = time.time() - t_start
    # ---- report
    for (h, c, k) in known_hits:
        print('KNOWN-FINDING: property=%s %s [%s] harness=%s check=%s' % (prop, k['what'], k['id'], h.name, check_key(c)))
    for (h, new, rep_path, info) in violations:
        for c in new:
            log('  violated: %s: %s' % (h.name, check_key(c)))
        print('VIOLATION property=%s replay=%s' % (prop, rep_path))
    for (h, new) in skipped_replays:
        print('ALSO-FAILING property=%s harness=%s (not replayed: %d violation(s) already confirmed) %s' % (prop, h.name, len(violations), '; '.join(check_key(c) for c in new)[:300]))
    for (h, notes) in inconclusive:
        print('INCONCLUSIVE property=%s harness=%s %s' % (prop, h.name if h else '-', '; '.join(notes)))
    if write_evidence:
        write_ev(prop, tier, seed, sel, results, verdicts, known_hits, violations, inconclusive, group_cmds, versions, wall, scratch)
    if violations:
        return 1
    if inconclusive:
        return 2
    print('OK property=%s tier=%s harnesses=%d wall=%.0fs' % (prop, tier, len(sel), wall))
    return 0


def write_ev(prop, tier, seed, sel, results, verdicts, known_hits, violations, inconclusive, cmds, versions, wall, scratch):
    obligations = 0
    discharged = 0
    distinct = set()
    solver_s = 0.0
    symex_s = 0.0
    samples = []
    fns = set()
    bounds = []
    assumes = set()
    per_h = []
    for h in sel:
        r = results.get(h.name)
        if not r:
            continue
        checks = r['checks']
        v = verdicts[h.name][0]
        n_ok = sum(1 for c in checks if c['status'] in ('Success', 'Satisfied'))
        n_unreach = sum(1 for c in checks if c['status'] in ('Unreachable',))
        obligations += len(checks)
        discharged += n_ok + n_unreach
        for c in checks:
            if c['status'] in ('Success', 'Satisfied', 'Failure'):
                loc = c.get('location', {})
                distinct.add((c.get('function'), c.get('description'), os.path.basename(loc.get('file', '')), loc.get('line')))
        st = r.get('stats', {})
        solver_s += float(st.get('runtime_decision_procedure_s', 0) or 0)
        symex_s += float(st.get('runtime_symex_s', 0) or 0)
        fns.update(h.fns)
        for b in h.bound:
            bounds.append('%s: %s' % (h.name, b))
        assumes.update(h.assume)
        own = [c for c in checks if c.get('category') in ('assertion', 'cover') and 'verif_' in (c.get('function') or '')]
        per_h.append({'harness': h.full, 'verdict': v, 'checks': len(checks), 'passed': n_ok, 'unreachable': n_unreach,
                      'wall_s': round(r['duration_ms'] / 1000.0, 2),
                      'solver_s': round(float(st.get('runtime_decision_procedure_s', 0) or 0), 3),
                      'symex_s': round(float(st.get('runtime_symex_s', 0) or 0), 3),
                      'vccs': st.get('vccs_generated')})
        if len(samples) < 12:
            samples.append({'obligation': h.full, 'functions_encoded': h.fns, 'bound': h.bound,
                            'property_assertions': [c['description'] + ' => ' + c['status'] for c in own][:12],
                            'verdict': v})
    ev = {
        'property_id': prop, 'tier': tier, 'seed': seed, 'level': 'model_checking',
        'coverage': {
            'evaluations': obligations,
            'distinct_nontrivial': len(distinct),
            'rule': 'one evaluation = one CBMC verification condition (harness assertion, cover witness, or Kani default check: '
                    'panic/unwrap/index/overflow/pointer/unwinding) decided by the SAT solver over all values of the symbolic inputs '
                    'inside the stated bounds; distinct_nontrivial counts distinct (function, description, source line) conditions whose '
                    'verdict needed the solver (status Success/Satisfied/Failure). Kani\'s assertion-reachability instrumentation is off (DESIGN.md 10.1): vacuity is '
                    'guarded by the kani::cover! witnesses, every one of which must come back SATISFIED, and by canary obligations that must FAIL',
            'samples': samples,
            'obligations': obligations,
            'discharged': discharged,
            'checker_cmd': ' ; '.join(cmds),
            'trusted_base': ['Kani %s (MIR -> goto translation, std models)' % versions.get('kani'), 'CBMC %s + CaDiCaL' % versions.get('cbmc'),
                             'rustc front end of the Kani toolchain', 'environment substitutions listed under assumptions',
                             'the composition argument of DESIGN.md section 4 where the property is end-to-end'],
            'functions_encoded': sorted(fns),
            'bounds': bounds,
            'harnesses': per_h,
            'solver_time_s': round(solver_s, 2),
            'symex_time_s': round(symex_s, 2),
            'known_findings_reported': [k['id'] for (_, _, k) in known_hits],
            'ignored_tool_artefacts': sorted(set(x for h in sel for x in (results.get(h.name) or {}).get('ignored', []))),
            'inconclusive': ['%s: %s' % (h.name if h else '-', '; '.join(n)) for (h, n) in inconclusive],
            'exhaustive': False,
            'explanation': 'bounded symbolic model checking of the implementation: the encoding is regenerated from /repo\'s working tree on every run '
                           '(scratch copy + #[cfg(kani)] harness modules), every verdict is the SAT solver\'s over all inputs inside the bounds',
        },
        'assumptions': sorted(assumes) + getattr(scratch, 'injected', []),
        'wall_s': round(wall, 1),
        'violations': len(violations),
    }
    evdir = os.path.join(VERIF, 'evidence') if not ALT else os.path.join(VERIF, 'logs', 'alt-' + ALT, 'evidence')
    os.makedirs(evdir, exist_ok=True)
    with open(os.path.join(evdir, prop + '.json'), 'w') as f:
        json.dump(ev, f, indent=1)


def run_replay(prop, path):
    """Re-run a stored counterexample natively against /repo's current tree."""
    files, harnesses = parse_harness_files()
    src = open(path).read()
    m = re.search(r'//@replay harness=(\S+)', src)
    if not m:
        raise SystemExit('not a replay file')
    hs = [h for h in harnesses if h.name == m.group(1)]
    if not hs:
        raise SystemExit('harness %s no longer exists' % m.group(1))
    h = hs[0]
    tests = re.findall(r'(/// Test generated.*?\n}\n)', src, flags=re.S)
    if not tests:
        tests = re.findall(r'(#\[test\]\nfn kani_concrete_playback.*?\n}\n)', src, flags=re.S)
    logdir = os.path.join(VERIF, 'logs', '%s-replay' % prop)
    os.makedirs(logdir, exist_ok=True)
    scratch = Scratch('%s-replay' % prop)
    try:
        scratch.create(files)
        names, rr = native_replay(scratch, h, tests, logdir)
    finally:
        scratch.cleanup()
    print(json.dumps(rr, indent=1))
    bad = any(isinstance(per, dict) and any(str(o).startswith(('panic', 'hang')) for o in per.values()) for per in rr.values())
    return 1 if bad else 0


def main():
    import argparse
    ap = argparse.ArgumentParser()
    ap.add_argument('prop')
    ap.add_argument('--tier', default=os.environ.get('VERIF_TIER', 'quick'), choices=['quick', 'thorough'])
    ap.add_argument('--replay')
    ap.add_argument('--only', help='regex on harness names (debugging; evidence is not written)')
    ap.add_argument('--list', action='store_true')
    a = ap.parse_args()
    seed = int(os.environ.get('VERIF_SEED', '0') or 0)
    if a.list:
        _, hs = parse_harness_files()
        for h in hs:
            if a.prop in h.props or a.prop == 'all':
                print('%-10s %-8s %-48s t=%ds %s' % (','.join(h.props), h.tier, h.name, h.timeout, h.group))
        return 0
    if a.replay:
        return run_replay(a.prop, a.replay)
    return run_check(a.prop, a.tier, seed, a.only, write_evidence=not a.only)


if __name__ == '__main__':
    sys.exit(main())

#!/bin/sh
# seed_matrix.sh <seed dir name under /verif/seeded> [tier] [property to check, default = the seed's property]
# Applies the seeded change to a scratch worktree of /repo HEAD and runs the registered check against it
# (VERIF_REPO=...; nothing under /verif/evidence or /verif/replays is touched).  Prints one summary line.
seed=$1; tier=${2:-quick}
V=$(cd "$(dirname "$0")/.." && pwd)
prop=${3:-$(python3 -c "import json;print(json.load(open('$V/seeded/$seed/meta.json'))['breaks_property'])")}
wt=/var/tmp/uflow-seedwt/$seed-$tier-$prop
rm -rf "$wt"; git -C /repo worktree prune; mkdir -p /var/tmp/uflow-seedwt
git -C /repo worktree add -q --detach "$wt" HEAD || exit 2
git -C "$wt" apply "$V/seeded/$seed/patch.diff" || { echo "$seed: patch does not apply"; git -C /repo worktree remove --force "$wt"; exit 2; }
mkdir -p "$V/logs/seedmatrix"
out="$V/logs/seedmatrix/$seed-$tier-$prop.txt"
t0=$(date +%s)
( cd "$V" && VERIF_NO_REPLAY=${VERIF_NO_REPLAY:-0} VERIF_REPO="$wt" VERIF_TAG="seed_${seed}_${tier}_${prop}" ./check "$prop" --tier "$tier" ) > "$out" 2>&1
rc=$?
t1=$(date +%s)
git -C /repo worktree remove --force "$wt"
echo "SEED $seed prop=$prop tier=$tier rc=$rc wall=$((t1-t0))s $(grep -E "^(VIOLATION|INCONCLUSIVE|KNOWN-FINDING|ALSO-FAILING)" "$out" | cut -c1-160 | tr '\n' '|')"

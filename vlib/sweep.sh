#!/bin/sh
# sweep.sh <tier> [ids...]: runs the registered checks one after the other against /repo and prints one line each
tier=${1:-quick}; shift
ids=${@:-C01 C02 C03 C04 C05 C06 C07 C08 C09 C10 C11 C12 C13 C14 C15 C16 C17 C18 C19 C20}
cd "$(dirname "$0")/.."
for id in $ids; do
  t0=$(date +%s)
  ./check $id --tier $tier > logs/sweep-$id-$tier.txt 2>&1
  rc=$?
  t1=$(date +%s)
  echo "SWEEP $id tier=$tier rc=$rc wall=$((t1-t0))s $(grep -E '^(VIOLATION|INCONCLUSIVE|KNOWN-FINDING)' logs/sweep-$id-$tier.txt | cut -c1-140 | tr '\n' '|')"
done

# Per-property claims. text = what assurance the check gives; note = what is assumed/trusted.
NOTES = ('Solver-based checking of the real code (Kani 0.68 / CBMC 6.11 / CaDiCaL). No hooks in /repo; harness modules live in /verif/harness and are '
         'injected into a scratch copy of /repo on every run (cfg(kani) only). Quick tier = the cheap obligations whose primary property this is; thorough '
         'tier = every obligation that lists the property, plus the longer scripts. Exit 2 (time-out, out of memory, harness out of date, non-reproducing '
         'counterexample) is inconclusive and never counted as a pass. Repaired defects and the three recorded findings (F12, F13, F14) are in known_findings.json; see DESIGN.md (10.3 for the sender flush path, 10.8 for what made heap code tractable).')

COMMON_NOTE = ('Trusted: Kani MIR->goto translation and std models, CBMC, CaDiCaL. Bounds (window size 4, script lengths, concrete shapes) are listed per '
               'obligation in the evidence file; whatever needs more operations, slots or a whole two-endpoint run is outside the claim. ')

CLAIMED = {
 'C01': {
  'text': 'Bounded model checking of the receive path of the real code: 20-bit/32-bit window arithmetic for all operands; one step of the frame window from ANY state '
          '(a frame is processed at most once and never after a later one, across 2^32 wrap); HalfConnection::handle_data_frame gate incl. network duplicates; '
          'PacketReceiver against a reference model of the sent history for all 2-arrival (thorough: 3-arrival) schedules of a 2-packet (3-packet) history at the '
          'id wrap (loss, duplication, reordering decided by the solver): per-channel order, at-most-once, byte-exact, Reliable never skipped. Bit corruption is C16.',
  'note': COMMON_NOTE + 'Window of 4 slots instead of 4096 (small constructors); single-fragment packets here (fragments: C04); sender-side facts (ids, leads) are decided on PacketSender and composed in prose (DESIGN.md section 4).',
 },
 'C02': {
  'text': 'Safety half decided by the solver: a Reliable packet is delivered before any later packet of its channel and the receive window never passes an undelivered Reliable packet '
          '(receiver model at the id wrap); resynchronisation stops at the first packet awaiting delivery; parent leads on the wire name the latest Reliable packet (PacketSender script at the wrap); '
          'a packet-window resynchronisation is only offered with empty pending/resend queues (sync emission from any sender state). '
          'Recovery links on the real flush path (HalfConnection::emit_frames on a small connection, times/RTT/payload symbolic): an unacknowledged Reliable fragment is retransmitted no later than 4 RTT after its last transmission; '
          'a due retransmission that finds no credit stays queued and goes out with the next credit; a valid acknowledgement ends retransmission, after which is_send_pending() is false and send_buffer_size() returns to zero on the window acknowledgement.',
  'note': COMMON_NOTE + 'NOT decided: "eventually delivered within bounded time under a fair network" (the chaining of the links over an unbounded fault prefix is prose). Flush scripts: one or two 1-byte packets, <= 3 flushes, credit classes concrete.',
 },
 'C03': {
  'text': 'Every component entry point that network data reaches is executed with fully hostile arguments under Kani\'s panic/unwrap/index/overflow/unwinding checks: '
          'PacketSender::acknowledge(any u32), PacketReceiver handle_datagram/receive/resynchronize(any u32), over-limit first fragment, FrameQueue acknowledge_group shapes / '
          'advance_transfer_window(any u32) / forget_frames(any), ReorderBuffer put/advance from any valid state, RecvRateSet/LossIntervalQueue/SendRateComp with any feedback incl. RTT 0, '
          'bisection termination, HalfConnection handle_sync_frame/handle_ack_frame with any ids; a flush after an acknowledgement that is ahead of fragments never sent returns (finding F3, loop bound = claimed work); thorough adds all codec parsers on arbitrary bytes and the client/server lifecycle steps. '
          'Loop bounds are the claimed maximum work; an unwinding failure there is a violation.',
  'note': COMMON_NOTE + 'Recorded finding F13 (hostile parent leads trip a debug assertion) is reported as KNOWN-FINDING. The socket layer is outside; sequences longer than the scripts are outside.',
 },
 'C04': {
  'text': 'Reassembly on the real AssemblyWindow/FragmentBuffer: a duplicated fragment with different contents never overwrites the first copy (both fragment positions); a datagram whose header disagrees '
          'with the first fragment seen (any field values) never changes the result; the produced packet has the summed length and the genuine bytes in place; produced exactly once. '
          'Thorough adds: datagram encodings at all class thresholds never exceed 1472 bytes (codec round trips), slicing/size arithmetic for every length, dealloc layout of the reassembled buffer.',
  'note': COMMON_NOTE + 'Two-fragment packets (1448 + small); more than 2 fragments are outside. Sender side (thorough): a 1449-byte packet leaves as a 1472-byte frame with fragment 0 and a second frame with the remaining byte, also when the flush credit cuts it across two flushes.',
 },
 'C05': {
  'text': 'Ideal-network composition links decided by the solver: PacketSender assigns consecutive ids in submission order with the documented leads and resend flags (two-packet scripts, all modes/channels); '
          'PacketReceiver delivers a 3-packet in-order arrival sequence completely, once, in global order across channels for every receive() cadence; wire order of one real flush (three packets incl. a two-fragment one: datagrams leave in (packet id, fragment id) order across frame boundaries and the id wrap, no frame above 1472 bytes); '
          'a packet whose fragment-rounded size does not fit the peer\'s remaining receive allocation is held back (so the receiver never has to discard it); stale TimeSensitive packets are dropped by the sender without consuming ids (thorough).',
  'note': COMMON_NOTE + 'The closed loop (acks reopening windows, pacing, bursts beyond the windows, two endpoints) is composed in prose only.',
 },
 'C06': {
  'text': 'Receive allocation invariant on the real AssemblyWindow for hostile datagrams (every header field any, claimed fragment counts up to 65536): alloc = sum over slots <= max_receive_alloc rounded up, '
          'over-limit packets allocate nothing, clear() returns a slot\'s bytes; a partial packet is released when the window passes it; sender and receiver charge the same fragment-rounded size for EVERY packet length; '
          'the sender never exceeds the advertised packet window and reopens after a full acknowledgement. The unbounded ack-group queue is reported as KNOWN-FINDING F12.',
  'note': COMMON_NOTE + 'Library counters and buffer lengths, not allocator overhead. 4 slots. The receive-side obligations build the assembly window with a loop-free constructor taking the already rounded limit: the rounding inside the real AssemblyWindow::new / PacketReceiver::new (4096-slot initialisation loops) could not be encoded and is outside the claim (a seeded change there, C06e, is not caught; DESIGN.md 10.7). F13 (data kept for a passed id under hostile leads, release builds) is a recorded finding.',
 },
 'C07': {
  'text': 'Client and server handshake handlers of the real code, all frame fields symbolic: Connect only for a SYN-ACK echoing our nonce / an ACK returning the server\'s freshly drawn nonce from the same address; '
          'exactly one Connect; refusals carry the matching error and echo the nonce; forged, stale or duplicate handshake frames never create, reset or replace a connection; both ends hand the connection mirrored '
          'start ids and limits (tx rate = min(local send, peer receive), alloc limits, windows).',
  'note': COMMON_NOTE + 'Environment models (DESIGN.md 3.3): opaque connection object recording its Config, ghost-logged socket, 4-slot map for HashMap, any-u32 nonce source, CRC stubbed in these obligations (codec: C16). '
          'Handlers are driven directly (not through step() and real sockets). One documented tool artefact (spurious __rust_dealloc failure in unrelated drop glue) is filtered for these harnesses.',
 },
 'C08': {
  'text': 'Event grammar of the client decided inductively: ONE operation (any frame of the nine types with any fields, a timer evaluation at any time, any application call) from ANY lifecycle state '
          'emits only monitor-legal events (no Receive/Disconnect before Connect, at most one terminal event, nothing after it, no second Connect) and lands in a state consistent with them. '
          'Server, per tracked address, inductively as well: from each lifecycle state (Pending/Active/Closing/Closed, fields and timer entry any) ONE operation - each of the nine frame types with any fields, the state\'s timer entry firing, '
          'the active-timeout scan, step_active_clients, send/disconnect/disconnect_now, drop() - one obligation per (state, operation), 66 in all: only monitor-legal events for that address, none for other addresses, state consistent with them.',
  'note': COMMON_NOTE + 'Opaque connection model (receive() delivers 0 or 1 packets per call, pinned per obligation on the server side). The timer loop of Server::handle_events is modelled by calling handle_event on the due entry (running a due entry through the real loop exhausts CBMC\'s memory even for concrete inputs, DESIGN.md 10.8).',
 },
 'C09': {
  'text': 'Client disconnect logic decided for all inputs: a Disconnect frame is transmitted in Flush mode only in a step where is_send_pending() answered false, at once in Now mode; received packets are drained before closing; '
          'a peer Disconnect is acknowledged, ends the connection at once and nothing is delivered after it; retry budget: Error(Timeout) only after exactly 10 resends each >= 2 s apart (>= 22 s), and every step at or past a deadline resends or terminates (12-step script, all times symbolic).',
  'note': COMMON_NOTE + 'Opaque connection model in the lifecycle obligations; what is_send_pending() means on the real HalfConnection is decided on the real flush path: true while a Persistent/Reliable fragment is unacknowledged or unsent - including a due retransmission that found no credit - and false once every fragment is acknowledged. Server-side disconnect paths are covered by the server event grammar (C08) only.',
 },
 'C10': {
  'text': 'Client active timeout both ways for any handshake duration and any frame/timer times (Timeout implies >= active_timeout_ms of silence; that much silence implies Timeout in this step); '
          'handshake retry budget (12-step script, all times symbolic); keepalive emission on the real HalfConnection::emit_sync_frame from any sender state (sync frame written and idle timer restarted once idle >= max(RTO, interval, 10 s) with credit).'
          ' The real Client::step() with a frame waiting in the socket and the clock at or past the deadline: the frame is read first and restarts the timeout (no Timeout is reported).',
  'note': COMMON_NOTE + 'Handlers driven directly with now_ms as a parameter, except in the real-step obligation (clock behind now_ms() = a value set by the obligation); "never times out while keepalives flow" is a composition argument; server-side timers are covered by the per-state obligations of C08/C17/C18 only (a real Server::step() did not fit).',
 },
 'C11': {
  'text': 'Recovery LINKS only (necessary conditions), each decided for all inputs: sync frame requests (frame/packet ids) are emitted when frames/packets are outstanding and the line is idle; the receiver resynchronises both windows for ids within one window and ignores the rest; '
          'every sync frame is answered by an ack frame carrying both bases even with no ack group queued; the sender\'s transfer/packet windows reopen on a covering acknowledgement; the rate never drops below s/64 and the no-feedback timer is re-armed.',
  'note': COMMON_NOTE + 'The liveness property itself (no permanent stall, not pinned at minimum rate) is NOT decided: chaining of the links over an unbounded fault sequence is prose (DESIGN.md section 5, C11).',
 },
 'C12': {
  'text': 'On the real flush path (HalfConnection::emit_frames on a small connection; times, RTT, RTO, payload, nonce, CRC symbolic; frames decoded from the bytes handed to the sink): a fragment of an Unreliable or TimeSensitive packet is transmitted at most once; '
          'a Persistent/Reliable fragment is retransmitted (no later than 4 RTT after the last transmission) until its frame is acknowledged with the right nonce and never after that - also when the acknowledged frame carried a packet that no longer exists - '
          'and a Persistent packet not after the receiver reported moving past it; a packet cut by the flush credit continues with its next fragment and repeats none; a TimeSensitive packet not begun before step() is never transmitted. '
          'Sender-queue level: resend flag exactly for Persistent/Reliable; stale TimeSensitive discard for any queue position / flush ids, single- and multi-fragment.',
  'note': COMMON_NOTE + 'Flush scripts of one or two 1-byte (or one 1449-byte) packets and <= 3 flushes; the credit class (ample / 100 bytes / negative), the mode and which acknowledgement arrives are concrete per obligation. Finding F14 (a credit-less flush pulls a TimeSensitive packet out of reach of the staleness test) is reported as KNOWN-FINDING.',
 },
 'C13': {
  'text': 'Per-step facts decided by the solver: nothing is transmitted on negative credit and every transmitted byte is debited (ack and sync emitters, all credit values); no frame exceeds 1472 bytes; '
          'X <= ceiling after every rate update (feedback on an RTT grid, no-feedback expiry fully symbolic); the ceiling handed to the connection is min(local max_send_rate, peer max_receive_rate) on both endpoints (thorough).',
  'note': COMMON_NOTE + 'The interval inequality itself (telescoping over steps) is NOT decided by the solver, its per-step ingredients are: the credit refill of step() adds at most rate x elapsed time and never lets the credit exceed rate x RTT (fill_flush_alloc with rate and RTT on a concrete grid, elapsed time and previous credit symbolic, floats bit-precise); every emitter debits every byte and starts nothing on negative credit; X <= ceiling. Data emitter path (thorough): one flush overdraws the credit by less than one frame.',
 },
 'C14': {
  'text': 'One call of SendRateComp::step from any state with MIN <= X <= ceiling: no-feedback expiry fully symbolic (keeps or halves, never below s/64, never above the ceiling, never increases; slow start and equation phase), '
          'no change before the expiry, initial state; feedback steps with RTT state/sample (and p) on a concrete grid and X, receive rate, ceiling, flags, times symbolic: 0.9/0.1 RTT average, at most doubling or initial window, no doubling sooner than one RTT, '
          'X <= max(X_eqn(R,p), s/64); bisection terminates.',
  'note': COMMON_NOTE + 'Float behaviour off the RTT/p grid is outside; loss-interval history fidelity to RFC 5348 section 5 is outside. RTT estimates <= 1e9 s (every sample is < 2^40 ms).',
 },
 'C15': {
  'text': 'FrameQueue::acknowledge_group on a 2-frame log, per bitfield shape with nonces/sizes/times symbolic: a group covering unknown ids or with the wrong nonce parity changes nothing observable (acked flags, fragment flags, feedback, reorder/loss state); '
          'a genuine group acknowledges exactly the claimed frames; a replayed group changes nothing and produces no sample; in an overlapping group only newly acknowledged frames contribute to the RTT / receive-rate sample; receiver-side group bookkeeping (nonce XOR) from any state.',
  'note': COMMON_NOTE + 'Shapes listed in the evidence; logs longer than 2 frames are outside. On the real flush path: the nonce bit on the wire is the random value drawn for the frame and the one logged for it; an ack group with the wrong nonce does not stop retransmission; the transfer window accepts any base only within (base, next id] (any u32).',
 },
 'C16': {
  'text': 'Codec of the real code: round trip for every scalar frame type (all field values), ack frames with 0..2 groups, data frames with datagrams of every encoding class at the threshold lengths (fields symbolic), exact selected encoding size; '
          'Frame::read on arbitrary bytes (length <= 24, all parsers) never panics and accepts exactly one well-formed frame; CRC gate; CRC lemmas on the real table step (equals the bit-serial LFSR, affine, parity-preserving, no cancellation by a clean byte) '
          'giving: every odd-weight error pattern is rejected at every length; all <=4-bit patterns on 8 data bytes.',
  'note': COMMON_NOTE + 'crc::compute is an uninterpreted constant in the round-trip/parse obligations (its strength is decided by the lemmas). 2- and 4-bit patterns in frames longer than 12 bytes are NOT decided (number-theoretic fact about the polynomial).',
 },
 'C17': {
  'text': 'Server limit scripts on the real handlers: limits (2,1) with SYN A, SYN B, ACK A, ACK B (many SYNs before any ACK) never exceed either limit; limits (1,1) refuse the second SYN with ServerFull; '
          'capacity returns after drop() or Disconnect + closed timeout and a new handshake completes; a handshake that used up its retry budget is forgotten whatever enable_handshake_errors says, and the next SYN gets a SYN-ACK, not ServerFull.',
  'note': COMMON_NOTE + 'Environment models as for C07; at most 4 tracked addresses, scripts of <= 5 events; larger populations are outside.',
 },
 'C18': {
  'text': 'Potential-function step on the real server handlers: for an address that is untracked or pending, any frame of any type (fields any) or a timer evaluation never lets bytes sent (plus 25 x resends still owed) gain on bytes received; '
          'every received datagram adds >= 5 bytes of margin; an undersized SYN (any length != 1467 payload bytes) is not a SYN.',
  'note': COMMON_NOTE + 'Received sizes are the exact wire sizes per frame type (decided by the codec obligations); environment models as for C07.',
 },
 'C19': {
  'text': 'Kani\'s allocator model (dealloc layout must equal the allocation layout) on the only unsafe-adjacent path: FragmentBuffer finalize + drop of the returned box for sizes that are and are not multiples of the fragment size.',
  'note': COMMON_NOTE + 'Verdicts of this class cannot be confirmed natively (the system allocator ignores the size): reported as KANI-ONLY after reading. Leak freedom on teardown of Client/Server and the unsafe impl Send/Sync are NOT decided.',
 },
 'C20': {
  'text': 'PacketSender accounting scripts: total_size() counts accepted bytes, drops exactly the payload size of a discarded stale TimeSensitive packet (single- and multi-fragment), drops exactly the acknowledged packets for ANY acknowledged id at the 20-bit wrap, never underflows (overflow checks on), and is zero after a full acknowledgement.',
  'note': COMMON_NOTE + 'Scripts of 2 packets, incl. a 1449-byte one released by a window acknowledgement (payload bytes, not fragment-rounded bytes); through HalfConnection::send_buffer_size() on the flush scripts (thorough). Client/RemoteClient accessors forward this counter (read off the code).',
 },
}

NOT_APPLICABLE = {}

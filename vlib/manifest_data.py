# Per-property claims. text = what assurance the check gives; note = what is assumed/trusted.
NOTES = ('Solver-based checking of the real code (Kani/CBMC). No hooks in /repo; harness modules live in /verif/harness and are '
         'injected into a scratch copy of /repo on every run. Exit 2 (time-out, out of memory, harness out of date, non-reproducing '
         'counterexample) is inconclusive and never counted as a pass. See DESIGN.md.')

PENDING = 'check not built yet in this session (to be claimed; see DESIGN.md section 5)'

CLAIMED = {
 'C01': {
  'text': 'Bounded model checking of the receive path: 20-bit/32-bit id window arithmetic decided for all operands at full width; '
          '(more obligations are added as they are built)',
  'note': 'Kani/CBMC/CaDiCaL trusted; bounds per harness in the evidence file; composition over components is prose (DESIGN.md section 4)',
 },
}

NOT_APPLICABLE = {p: PENDING for p in ['C02','C03','C04','C05','C06','C07','C08','C09','C10','C11','C12','C13','C14','C15','C16','C17','C18','C19','C20']}

#!/bin/sh
# verify_seed.sh <id> <demo target: src/... (append) | tests/seeded_demo.rs (copy)>
# Confirms in a scratch worktree of /repo HEAD: patch applies, demo FAILS with it and PASSES without it,
# and the existing test suite passes with it (isolated network namespace: the suite binds fixed ports).
id=$1; target=$2
wt=/tmp/sv/$id
rm -rf $wt; git -C /repo worktree prune; git -C /repo worktree add -q $wt HEAD || exit 2
cd $wt
place() { case "$target" in tests/*) cp /tmp/seed/$id/demo_test.rs $target;; *) cat /tmp/seed/$id/demo_test.rs >> $target;; esac; }
filt() { case "$target" in tests/*) echo "--test seeded_demo";; *) echo "--lib seeded_demo";; esac; }
# without change
place
unshare -n sh -c "ip link set lo up; cargo test --offline $(filt) 2>&1" | grep -E "^test result" | head -1 > /tmp/sv/$id.without
git checkout -q -- . ; rm -f tests/seeded_demo.rs
git apply /tmp/seed/$id/patch.diff || exit 2
# suite with change
unshare -n sh -c "ip link set lo up; cargo test --offline --no-fail-fast 2>&1" | grep -E "^test result|FAILED" > /tmp/sv/$id.suite
place
unshare -n sh -c "ip link set lo up; cargo test --offline $(filt) 2>&1" | grep -E "^test result" | head -1 > /tmp/sv/$id.with
echo "$id without: $(cat /tmp/sv/$id.without)"
echo "$id with:    $(cat /tmp/sv/$id.with)"
echo "$id suite:   $(grep -c 'ok\.' /tmp/sv/$id.suite) ok, $(grep -c 'FAILED' /tmp/sv/$id.suite) failed"
cd /; git -C /repo worktree remove --force $wt

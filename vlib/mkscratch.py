#!/usr/bin/env python3
"""Debug helper: create an injected scratch copy at /var/tmp/uflow-verif/exp and print its path."""
import sys, os, shutil
sys.path.insert(0, os.path.dirname(os.path.abspath(__file__)))
import runner
files, hs = runner.parse_harness_files()
s = runner.Scratch('exp'); s.dir = os.path.join(runner.SCRATCH_ROOT, 'exp')
keep_target = None
if os.path.isdir(os.path.join(s.dir, 'target')):
    keep_target = s.dir + '.target'
    shutil.rmtree(keep_target, ignore_errors=True)
    os.rename(os.path.join(s.dir, 'target'), keep_target)
shutil.rmtree(s.dir, ignore_errors=True)
s.create(files)
if keep_target:
    shutil.rmtree(os.path.join(s.dir, 'target'), ignore_errors=True)
    os.rename(keep_target, os.path.join(s.dir, 'target'))
print(s.dir)
